#!/usr/bin/env python3
"""Orchestrator of the deterministic-simulation checks for PetrichorIT/des.

  check.py build
  check.py <C01..C20> [--tier quick|thorough] [--runs N] [--jobs J]
  check.py replay <file>
  check.py selfcheck [--runs N]

Exit codes: 0 property held on everything explored; 1 violation (a line
`VIOLATION property=<id> replay=<path>` is printed); 2 harness / build error.
Only the python standard library is used.
"""
import copy
import json
import os
import shutil
import subprocess
import sys
import time
from concurrent.futures import ThreadPoolExecutor

ROOT = os.path.dirname(os.path.abspath(__file__))
SIM = os.path.join(ROOT, "sim")
BIN = os.path.join(SIM, "target", "release", "dsim")
WORK = os.path.join(ROOT, ".work")
KNOWN = os.path.join(ROOT, "known_findings.json")
DEFAULT_SEED = 20260925

sys.path.insert(0, ROOT)
from props import PROPS  # noqa: E402


def log(*a):
    print(*a, file=sys.stderr, flush=True)


def build():
    env = dict(os.environ)
    env["CARGO_NET_OFFLINE"] = "true"
    t0 = time.time()
    p = subprocess.run(["cargo", "build", "--release", "--offline"], cwd=SIM, env=env,
                       stdout=subprocess.PIPE, stderr=subprocess.STDOUT, text=True)
    if p.returncode != 0:
        log(p.stdout[-6000:])
        log("check.py: build of /verif/sim against /repo failed (harness error, not a violation)")
        sys.exit(2)
    return time.time() - t0


def dsim_exec_raw(prop, program, timeout=120, extra=()):
    p = subprocess.run([BIN, "exec", "--prop", prop] + list(extra), input=json.dumps(program), text=True,
                       stdout=subprocess.PIPE, stderr=subprocess.DEVNULL, timeout=timeout)
    out = p.stdout.strip().splitlines()
    try:
        return json.loads(out[-1])
    except Exception:
        return {}


def dsim_exec(prop, program, timeout=120):
    """Runs one program in a fresh process. Returns (status, violations)."""
    if prop == "C04":
        # C04 also compares two separate processes, one of them with shifted global counters / heap
        try:
            a = dsim_exec_raw(prop, program, timeout)
            b = dsim_exec_raw(prop, program, timeout, extra=("--perturb",))
        except subprocess.TimeoutExpired:
            return "violation", [{"prop": prop, "rule": "no-progress", "msg": "run did not finish", "facts": {}}]
        vs = list(a.get("violations", []))
        if a.get("trace_hash") != b.get("trace_hash"):
            vs.append({"prop": prop, "rule": "cross-process", "facts": {},
                       "msg": "the same seeded model produced different histories in two processes (trace hashes %s vs %s)" % (a.get("trace_hash"), b.get("trace_hash"))})
        return ("violation" if vs else a.get("status", "invalid")), vs
    try:
        p = subprocess.run([BIN, "exec", "--prop", prop], input=json.dumps(program), text=True,
                           stdout=subprocess.PIPE, stderr=subprocess.DEVNULL, timeout=timeout)
    except subprocess.TimeoutExpired:
        return "violation", [{"prop": prop, "rule": "no-progress", "msg": "run did not finish within %ds" % timeout, "facts": {}}]
    out = p.stdout.strip().splitlines()
    for line in out:
        if line.startswith("CRASH"):
            return "violation", [{"prop": prop, "rule": "crash", "msg": line, "facts": {}}]
    if p.returncode < 0:
        return "violation", [{"prop": prop, "rule": "crash", "msg": "killed by signal %d" % -p.returncode, "facts": {}}]
    try:
        d = json.loads(out[-1])
    except Exception:
        return "invalid", []
    return d.get("status", "invalid"), d.get("violations", [])


# ---------------------------------------------------------------- minimiser

def _paths(v, path=()):
    """Yields paths of all lists and scalar leaves."""
    if isinstance(v, list):
        yield ("list", path)
        for i, x in enumerate(v):
            yield from _paths(x, path + (i,))
    elif isinstance(v, dict):
        for k in sorted(v):
            yield from _paths(v[k], path + (k,))
    elif isinstance(v, bool):
        yield ("bool", path)
    elif isinstance(v, int):
        yield ("int", path)


def _get(v, path):
    for p in path:
        v = v[p]
    return v


def _set(v, path, x):
    for p in path[:-1]:
        v = v[p]
    v[path[-1]] = x


def minimise(prop, program, rule, budget_s=90, budget_n=600):
    """Greedy structural shrinking; a candidate is kept iff the same rule of the same property fails."""
    t_end = time.time() + budget_s
    tries = [0]

    def fails(cand):
        if tries[0] >= budget_n or time.time() > t_end:
            return False
        tries[0] += 1
        st, vs = dsim_exec(prop, cand, timeout=60)
        return st == "violation" and any(v["rule"] == rule for v in vs)

    cur = copy.deepcopy(program)
    size0 = len(json.dumps(cur))
    progress = True
    while progress and tries[0] < budget_n and time.time() < t_end:
        progress = False
        # 1. delete chunks of lists, longest lists first
        lists = [p for k, p in _paths(cur) if k == "list"]
        lists.sort(key=lambda p: -len(_get(cur, p)))
        for lp in lists:
            try:
                lst = _get(cur, lp)
            except (KeyError, IndexError, TypeError):
                continue
            if not isinstance(lst, list) or not lst:
                continue
            chunk = max(1, len(lst) // 2)
            while chunk >= 1:
                i = 0
                while i < len(lst):
                    cand = copy.deepcopy(cur)
                    l2 = _get(cand, lp)
                    del l2[i:i + chunk]
                    if fails(cand):
                        cur = cand
                        lst = _get(cur, lp)
                        progress = True
                    else:
                        i += chunk
                    if tries[0] >= budget_n or time.time() > t_end:
                        break
                if chunk == 1:
                    break
                chunk //= 2
        # 2. simplify scalars
        for kind, sp in list(_paths(cur)):
            if kind == "list":
                continue
            try:
                val = _get(cur, sp)
            except (KeyError, IndexError, TypeError):
                continue
            cands = []
            if kind == "bool":
                if val:
                    cands = [False]
            elif kind == "int" and val != 0:
                cands = [0, 1, val // 2] if val > 1 else [0]
            for c in cands:
                if c == val:
                    continue
                cand = copy.deepcopy(cur)
                _set(cand, sp, c)
                if fails(cand):
                    cur = cand
                    progress = True
                    break
    return cur, size0, len(json.dumps(cur)), tries[0]


# ---------------------------------------------------------------- running a property

def run_chunks(prop, tier, seed, total, jobs, workdir, known_path, extra_args=()):
    """Fans run indices out over worker processes. Returns list of chunk reports (dicts)."""
    nchunks = max(jobs * 4, 1)
    size = max(1, (total + nchunks - 1) // nchunks)
    chunks = [(a, min(a + size, total)) for a in range(0, total, size)]
    reports = [None] * len(chunks)
    stop_after = [None]  # smallest chunk id with a violation

    def work(ci):
        a, b = chunks[ci]
        cur = a
        rep_all = []
        watchdog_retries = 0
        while cur < b:
            if stop_after[0] is not None and ci > stop_after[0]:
                return rep_all
            out = os.path.join(workdir, "chunk-%d-%d.json" % (ci, cur))
            cmd = [BIN, "run", "--prop", prop, "--tier", tier, "--seed", str(seed), "--from", str(cur),
                   "--to", str(b), "--out", out, "--known", known_path] + list(extra_args)
            crash = None
            tmo = PROPS[prop].get("chunk_timeout", {"quick": 1800, "thorough": 14400})[tier] if isinstance(PROPS[prop].get("chunk_timeout", {}), dict) else PROPS[prop]["chunk_timeout"]
            proc = subprocess.Popen(cmd, stdout=subprocess.PIPE, stderr=subprocess.DEVNULL, text=True)
            try:
                stdout, _ = proc.communicate(timeout=tmo)
            except subprocess.TimeoutExpired:
                # ask the worker which run index it is stuck in (its SIGABRT handler prints it), then make sure it is gone
                proc.send_signal(6)
                try:
                    stdout, _ = proc.communicate(timeout=10)
                except subprocess.TimeoutExpired:
                    proc.kill()
                    stdout, _ = proc.communicate()
                # The worker's own watchdog reports a run that makes no progress for 45 s. Getting here means the worker
                # was still progressing, only too slowly for the budget (overloaded machine): that is a harness problem,
                # not a violation - there would be no replay that reproduces it.
                rep_all.append({"harness_error": "chunk %d..%d exceeded %d s while still progressing (%s)" % (cur, b, tmo, " ".join((stdout or "").split()[:4])), "from": cur, "to": b})
                return rep_all

            class _P:
                pass
            p = _P()
            p.returncode = proc.returncode
            p.stdout = stdout or ""
            if crash is None:
                for line in p.stdout.splitlines():
                    if line.startswith("CRASH"):
                        crash = line
                if p.returncode < 0 and crash is None:
                    crash = "CRASH signal=%d index=unknown" % -p.returncode
            if crash and "watchdog" in crash:
                # The worker's watchdog measures wall-clock time. Before a stalled run counts as a hang it must stall in a
                # fresh process as well; if it does not, the machine was overloaded: the range is run again, and if the
                # watchdog fires a second time without a reproducible hang that is a harness error, never a violation
                # (there would be no replay that reproduces it).
                idx = None
                for tok in crash.split():
                    if tok.startswith("index=") and tok[6:].isdigit():
                        idx = int(tok[6:])
                hung = True
                if idx is not None:
                    g = subprocess.run([BIN, "gen", "--prop", prop, "--tier", tier, "--seed", str(seed), "--index", str(idx)],
                                       stdout=subprocess.PIPE, text=True)
                    try:
                        st, vs = dsim_exec(prop, json.loads(g.stdout), timeout=180)
                        hung = any(v.get("rule") in ("crash", "no-progress") for v in vs)
                    except Exception:
                        hung = True
                if not hung:
                    if watchdog_retries < 1:
                        watchdog_retries += 1
                        continue
                    rep_all.append({"harness_error": "the watchdog fired twice in runs %d..%d (%s) but the run finishes in a fresh process: machine overloaded" % (cur, b, crash), "from": cur, "to": b})
                    return rep_all
            if crash:
                rep_all.append({"crash": crash, "from": cur, "to": b, "out": out})
                stop_after[0] = ci if stop_after[0] is None else min(stop_after[0], ci)
                return rep_all
            if p.returncode != 0 or not os.path.exists(out):
                rep_all.append({"harness_error": "worker exit %s" % p.returncode, "from": cur, "to": b})
                return rep_all
            rep = json.load(open(out))
            rep["out"] = out
            rep_all.append(rep)
            if rep.get("violation"):
                stop_after[0] = ci if stop_after[0] is None else min(stop_after[0], ci)
                return rep_all
            cur = rep["next"]
            if not rep.get("tainted") and cur < b:
                # worker stopped early without reason
                rep_all.append({"harness_error": "worker stopped at %d of %d" % (cur, b), "from": cur, "to": b})
                return rep_all
        return rep_all

    with ThreadPoolExecutor(max_workers=jobs) as ex:
        for ci, r in enumerate(ex.map(work, range(len(chunks)))):
            reports[ci] = r
    flat = []
    for r in reports:
        flat.extend(r or [])
    return flat


def merge_count(files):
    files = [f for f in files if os.path.exists(f)]
    if not files:
        return 0
    p = subprocess.run([BIN, "merge"] + files, stdout=subprocess.PIPE, text=True)
    try:
        return int(p.stdout.strip())
    except ValueError:
        return 0


def load_known():
    if not os.path.exists(KNOWN):
        return []
    return json.load(open(KNOWN)).get("findings", [])


def check(prop, tier, seed, runs=None, jobs=None):
    cfg = PROPS[prop]
    t_start = time.time()
    build_s = build()
    jobs = jobs or min(16, os.cpu_count() or 4)
    total = runs or cfg["runs"][tier]
    workdir = os.path.join(WORK, "%s-%d" % (prop, os.getpid()))
    shutil.rmtree(workdir, ignore_errors=True)
    os.makedirs(workdir)
    t_run = time.time()
    reports = run_chunks(prop, tier, seed, total, jobs, workdir, KNOWN, extra_args=(("--hashes",) if prop == "C04" else ()))
    cross = None
    if prop == "C04":
        # second pass: same run indices in other processes (different chunking), after a seed-derived number of
        # warm-up simulations and a heap prelude; the per-index trace hashes must be identical
        wd2 = os.path.join(workdir, "pass2")
        os.makedirs(wd2)
        rep2 = run_chunks(prop, tier, seed, total, max(1, jobs - 3), wd2, KNOWN, extra_args=("--hashes", "--perturb"))
        h1, h2 = {}, {}
        for reps, h in ((reports, h1), (rep2, h2)):
            for r in reps:
                f = r.get("out", "") + ".hashes"
                if os.path.exists(f):
                    for line in open(f):
                        i, hv = line.split()
                        h[int(i)] = hv
        diff = sorted(i for i in h1 if i in h2 and h1[i] != h2[i])
        cross = {"compared": len(set(h1) & set(h2)), "different": len(diff)}
        if diff:
            idx = diff[0]
            g = subprocess.run([BIN, "gen", "--prop", prop, "--tier", tier, "--seed", str(seed), "--index", str(idx)], stdout=subprocess.PIPE, text=True)
            reports.append({"violation": {"index": idx, "rule": "cross-process", "facts": {}, "program": json.loads(g.stdout),
                                          "msg": "run %d: trace hash %s in one process, %s in another (after warm-up simulations)" % (idx, h1[idx], h2[idx])}})
    run_s = time.time() - t_run

    harness_errors = [r for r in reports if "harness_error" in r]
    if harness_errors:
        log("check.py: harness error:", harness_errors[0])
        sys.exit(2)

    # aggregate
    evaluations = sum(r.get("evaluations", 0) for r in reports)
    nontrivial_runs = sum(r.get("nontrivial_runs", 0) for r in reports)
    events = sum(r.get("events", 0) for r in reports)
    sim_ns = sum(int(r.get("sim_time_ns", "0")) for r in reports)
    probes, known_seen = {}, {}
    samples = []
    for r in reports:
        for k, v in r.get("probes", {}).items():
            probes[k] = probes.get(k, 0) + v
        for k, v in r.get("known", {}).items():
            known_seen[k] = known_seen.get(k, 0) + v
        if len(samples) < 4:
            samples.extend(r.get("samples", [])[: 4 - len(samples)])
    outs = [r["out"] for r in reports if "out" in r]
    distinct_nontrivial = merge_count([o + ".nontrivial" for o in outs])
    distinct_traces = merge_count([o + ".traces" for o in outs])
    distinct_states = merge_count([o + ".states" for o in outs])

    # violations: the one with the smallest run index
    viol = None
    for r in reports:
        if r.get("crash"):
            idx = None
            for tok in r["crash"].split():
                if tok.startswith("index=") and tok[6:].isdigit():
                    idx = int(tok[6:])
            if idx is None:
                idx = r["from"]
            g = subprocess.run([BIN, "gen", "--prop", prop, "--tier", tier, "--seed", str(seed), "--index", str(idx)],
                               stdout=subprocess.PIPE, text=True)
            program = json.loads(g.stdout)
            rule = "no-progress" if r["crash"].startswith("TIMEOUT") else "crash"
            v = {"index": idx, "rule": rule, "msg": r["crash"], "facts": {}, "program": program}
        elif r.get("violation"):
            v = r["violation"]
        else:
            continue
        if viol is None or v["index"] < viol["index"]:
            viol = v

    exit_code = 0
    violations = 0
    replay_path = None
    if viol is not None:
        violations = 1
        exit_code = 1
        os.makedirs(os.path.join(ROOT, "replays"), exist_ok=True)
        small, s0, s1, tries = minimise(prop, viol["program"], viol["rule"])
        # re-evaluate on the minimised program to record the exact divergence
        st, vs = dsim_exec(prop, small)
        same = [v for v in vs if v["rule"] == viol["rule"]]
        st2, vs2 = dsim_exec(prop, small)
        stable = (st == st2 and [v["rule"] for v in vs] == [v["rule"] for v in vs2] and [v["msg"] for v in vs] == [v["msg"] for v in vs2])
        if not same:
            # minimised program does not reproduce in a fresh process: fall back to the original
            small = viol["program"]
            st, vs = dsim_exec(prop, small)
            same = [v for v in vs if v["rule"] == viol["rule"]]
        replay = {
            "format": "dsim-replay-1",
            "property": prop,
            "engine": cfg["engine"],
            "verif_seed": seed,
            "tier": tier,
            "run_index": viol["index"],
            "oracle_rule": viol["rule"],
            "program": small,
            "expected": {"rule": viol["rule"], "message": (same[0]["msg"] if same else viol["msg"]), "facts": (same[0].get("facts", {}) if same else viol.get("facts", {}))},
            "original_message": viol["msg"],
            "size_before": s0,
            "size_after": s1,
            "minimiser_candidates": tries,
            "replay_is_stable": stable,
            "reproduces_in_fresh_process": bool(same),
        }
        replay_path = os.path.join(ROOT, "replays", "%s-%d.json" % (prop, viol["index"]))
        json.dump(replay, open(replay_path, "w"), indent=1)

    # known findings
    known = [k for k in load_known() if k.get("property") == prop and k.get("status") == "open"]
    for k in known:
        print("KNOWN-FINDING: property=%s %s [%s; matched %d runs]" % (prop, k.get("what", ""), k["id"], known_seen.get(k["id"], 0)))

    wall = time.time() - t_start
    fault_kinds = cfg.get("fault_probes", [])
    evidence = {
        "property_id": prop,
        "tier": tier,
        "seed": seed,
        "level": cfg["level"],
        "coverage": {
            "evaluations": evaluations,
            "distinct_nontrivial": distinct_nontrivial,
            "rule": cfg["rule"],
            "samples": samples,
            "nontrivial_runs": nontrivial_runs,
            "runs_per_hour": int(evaluations / max(run_s, 1e-6) * 3600),
            "seeds": {"base": seed, "first_index": 0, "last_index": total - 1, "derivation": "run_seed = mix(VERIF_SEED, property, index)"},
            "sim_time_covered_s": sim_ns / 1e9,
            "events_dispatched": events,
            "fault_counts": {k: probes.get(k, 0) for k in fault_kinds},
            "reach_probes": probes,
            "probes_at_zero": [k for k in cfg.get("expected_probes", []) if probes.get(k, 0) == 0],
            "distinct_traces": distinct_traces,
            "distinct_states": distinct_states,
            "components": cfg["components"],
            "known_findings_seen": known_seen,
            "build_s": round(build_s, 1),
            "run_s": round(run_s, 1),
            "exhaustive": False,
            "cross_process_comparison": cross,
        },
        "assumptions": cfg["assumptions"],
        "wall_s": round(wall, 2),
        "violations": violations,
    }
    os.makedirs(os.path.join(ROOT, "evidence"), exist_ok=True)
    json.dump(evidence, open(os.path.join(ROOT, "evidence", prop + ".json"), "w"), indent=1)
    shutil.rmtree(workdir, ignore_errors=True)

    log("check.py: %s tier=%s seed=%d runs=%d nontrivial(distinct)=%d traces=%d wall=%.1fs (build %.1fs)" %
        (prop, tier, seed, evaluations, distinct_nontrivial, distinct_traces, wall, build_s))
    if replay_path:
        print("VIOLATION property=%s replay=%s" % (prop, replay_path))
        log("  rule=%s index=%d: %s" % (viol["rule"], viol["index"], viol["msg"]))
    return exit_code


def replay(path):
    build()
    r = json.load(open(path))
    prop = r["property"]
    st, vs = dsim_exec(prop, r["program"])
    same = [v for v in vs if v["rule"] == r["expected"]["rule"]]
    if same:
        print("VIOLATION property=%s replay=%s" % (prop, os.path.abspath(path)))
        log("  rule=%s: %s" % (same[0]["rule"], same[0]["msg"]))
        return 1
    log("replay: rule %s did not fail (status %s, %s)" % (r["expected"]["rule"], st, [v["rule"] for v in vs]))
    return 0


def selfcheck(runs):
    """Determinism of the harness: same indices, different worker counts / processes, equal results."""
    build()
    bad = 0
    for prop in sorted(PROPS):
        n = runs
        res = []
        for jobs in (1, 5, 16):
            workdir = os.path.join(WORK, "self-%s-%d-%d" % (prop, jobs, os.getpid()))
            shutil.rmtree(workdir, ignore_errors=True)
            os.makedirs(workdir)
            reps = run_chunks(prop, "quick", DEFAULT_SEED, n, jobs, workdir, KNOWN, extra_args=("--roundtrip",))
            outs = [r["out"] for r in reps if "out" in r]
            sig = (sum(r.get("evaluations", 0) for r in reps), sum(r.get("events", 0) for r in reps),
                   sum(int(r.get("sim_time_ns", "0")) for r in reps),
                   merge_count([o + ".traces" for o in outs]), merge_count([o + ".nontrivial" for o in outs]),
                   json.dumps(sorted((k, v) for r in reps for k, v in r.get("probes", {}).items()) and
                              sorted({k: sum(r.get("probes", {}).get(k, 0) for r in reps) for r0 in reps for k in r0.get("probes", {})}.items())))
            res.append(sig)
            shutil.rmtree(workdir, ignore_errors=True)
        ok = all(r == res[0] for r in res)
        print("selfcheck %s runs=%d: %s %s" % (prop, n, "deterministic" if ok else "DIVERGES", res[0][:5]))
        if not ok:
            bad += 1
            for r in res:
                print("   ", r)
    return 2 if bad else 0


def main():
    args = sys.argv[1:]
    if not args:
        print(__doc__)
        return 2
    tier = os.environ.get("VERIF_TIER", "quick")
    seed = int(os.environ.get("VERIF_SEED", DEFAULT_SEED))
    runs = None
    jobs = None
    rest = []
    i = 0
    while i < len(args):
        if args[i] == "--tier":
            tier = args[i + 1]
            i += 2
        elif args[i] == "--runs":
            runs = int(args[i + 1])
            i += 2
        elif args[i] == "--jobs":
            jobs = int(args[i + 1])
            i += 2
        else:
            rest.append(args[i])
            i += 1
    if tier not in ("quick", "thorough"):
        tier = "quick"
    if rest[0] == "build":
        build()
        return 0
    if rest[0] == "replay":
        return replay(rest[1])
    if rest[0] == "selfcheck":
        return selfcheck(runs or 2000)
    if rest[0] in PROPS:
        return check(rest[0], tier, seed, runs, jobs)
    log("unknown command", rest[0])
    return 2


if __name__ == "__main__":
    sys.exit(main())
