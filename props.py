"""Per-property configuration of the checks (budgets, evidence texts)."""

REAL_FES = ["des-cqueue: CQueue, DualLinkedList, CQueueLLAllocator, LocalBox (real code)"]
STUB_FES = ["event payloads: harness-made values carrying an id / checksum / drop counter"]

SIM_TECH = "deterministic simulation: seeded search over generated operation histories / fault sequences executed on the real code, checked against a reference model"

NOT_APPLICABLE = [
    {"property_id": "C17", "reason": "pure function of static configuration text and module path; no schedule, clock, fault or run history for a simulator to control (DESIGN.md section 4)"},
    {"property_id": "C18", "reason": "pure function of the NDL description document; elaboration and instantiation happen before any event exists (DESIGN.md section 4)"},
    {"property_id": "C19", "reason": "pure function of the static gate graph at the moment of the call; no schedule, clock, fault or history enters (DESIGN.md section 4)"},
]

# properties not (yet) claimed for another reason than non-applicability are appended here by name
UNCLAIMED = ""

PROPS = {
    "C01": {
        "engine": "fes+rt",
        "technique": SIM_TECH,
        "level_text": "Seeded exploration: generated add/cancel/fetch histories are executed on the real "
                      "calendar queue and compared operation by operation with a reference priority queue; structural invariants are "
                      "checked through a hook after every operation. Evidence, not proof: histories are sampled.",
        "level_note": "Trusted: the reference queue (40 lines), the structural-walk hook, cargo/rustc. Far-future times are capped so a single fetch scans <= 2e5 buckets.",
        "level": "exploration",
        "runs": {"quick": 600000, "thorough": 9000000},
        "rule": "seeded add/cancel/fetch histories on the real CQueue (adaptive time patterns: current time, head bucket, "
                "bucket boundaries +-1ns, whole years +-1ns, ties, far future; cancel selectors: any / at current time in an "
                "indexed bucket / zero bucket / min / max / last of bucket / already fetched) under a swarm of (n,t); "
                "distinct = distinct program hash; non-trivial = at least one fetch after a cancel, or a tie group >= 2, "
                "or an event beyond the current calendar year. Events at Duration::MAX are scheduled, cancelled and dropped "
                "(never fetched). One program in eight drives the event set through des::runtime::Runtime instead: "
                "paused at limits (dispatch_n_events / dispatch_events_until), events added from outside between the "
                "current time and the pending events, resumed; oracle there = every scheduled event handled exactly once "
                "in non-decreasing order of the scheduled timestamps",
        "fault_probes": ["cancel_pending", "cancel_at_current_time_in_bucket", "cancel_in_zero_bucket", "cancel_already_fetched"],
        "expected_probes": ["cancel_at_current_time_in_bucket", "cancel_in_zero_bucket", "cancel_already_fetched",
                            "add_at_current_time", "add_beyond_year", "tie_created", "fetch_from_zero_bucket",
                            "event_at_duration_max", "external_add_while_paused", "one_bucket_spanning_the_whole_time_axis", "event_at_duration_max_fetched"],
        "components": {"real": REAL_FES + ["des::runtime::Runtime, FutureEventSet (real code, one program in eight)"], "stub": STUB_FES + ["Application / Event implementations (runtime-level programs)"]},
        "assumptions": ["reference priority queue (Vec of (time, seq, state)) is the oracle",
                        "single fetch scans at most 200000 buckets (far-future times are capped)",
                        "sampled histories, not exhaustive"],
    },
    "C02": {
        "engine": "rt+net",
        "technique": SIM_TECH,
        "level": "exploration",
        "level_text": "Seeded exploration: generated event programs (handlers scheduling children at arbitrary delays incl. zero, "
                      "roots before run and from at_sim_start, attempts to schedule into the past, non-zero start times, (n,t) swarm) "
                      "run on the real Runtime; every handler records SimTime::now() and the oracle compares it with the scheduled "
                      "timestamp, monotonicity, exactly-once and accept/reject of every scheduling attempt. One program in twelve is a "
                      "network simulation: handlers try send_at / schedule_at for past instants (must be rejected), and every "
                      "delivery is compared with the instant a reference DES of the net layer predicts. Sampled, not exhaustive.",
        "level_note": "Trusted: the static expansion of the program (each event instance has a statically known timestamp). Delays are capped at 1e5 bucket widths so a fetch stays bounded.",
        "runs": {"quick": 2000000, "thorough": 50000000},
        "rule": "seeded event programs on the real Runtime<App>: forest of event instances with static timestamps, scheduled via "
                "add_event / add_event_in, before run / from at_sim_start / from handlers, start time in {0, small, large}, "
                "attempts to schedule before the current simulated time; distinct = distinct program hash; non-trivial = >= 1 "
                "handler-scheduled event and (non-zero start time or >= 1 past attempt)",
        "fault_probes": ["past_attempt", "past_root_attempt", "other_thread_built_a_runtime_during_a_handler", "message_for_a_past_instant_attempted"],
        "expected_probes": ["past_attempt", "past_root_attempt", "nonzero_start_time", "zero_delay_child", "tie_adjacent_pairs", "run_beyond_2_pow_64_ns",
                            "other_thread_built_a_runtime_during_a_handler", "clock_checked_under_stepping", "handler_panic_caught_by_the_driver", "helper_thread_read_the_clock", "program_late_in_a_long_simulation",
                            "message_for_a_past_instant_attempted", "net_handler_clock_checked"],
        "components": {"real": ["des::runtime::{Runtime, Builder, FutureEventSet}, des::time::SimTime, des-cqueue (real code)",
                                "des::net (Sim, modules, gates, send_at / schedule_at / send_in, event buffer; real code, one program in twelve)"],
                       "stub": ["Application / Event implementations: harness interpreter of the generated program"]},
        "assumptions": ["cqueue backend (default feature set)", "sampled programs, not exhaustive"],
    },
    "C10": {
        "engine": "rt+net",
        "technique": SIM_TECH + "; the schedule dimension is the step schedule (cuts, until-times, adds while paused)",
        "level": "exploration",
        "level_text": "Seeded exploration over (event program x step schedule): the stepped run on the real Runtime must equal the real "
                      "uninterrupted run event by event, and after every step dispatched/remaining/sim_time must match; programs with "
                      "adds while paused are compared with the reference DES (only when that agreed with the real uninterrupted run). "
                      "Sampled, not exhaustive.",
        "level_note": "Trusted: reference DES for the expectation of counts between steps and for schedules with external adds.",
        "runs": {"quick": 2000000, "thorough": 50000000},
        "rule": "event programs as for C02/C03 x step schedules of dispatch_n_events(k), dispatch_events_until(t) with t below / at / "
                "above the next timestamp or in the past, and add_event while paused (at the reported time, between, at the next "
                "pending timestamp, later), or a Builder for another simulation configured and dropped while paused, then "
                "dispatch_all + finish; distinct = distinct program hash; non-trivial = a cut with "
                ">= 2 events pending or an external add. One program in ten is a network simulation (des::net) that is paused "
                "with dispatch_events_until and fed with messages from outside (Runtime::add_message_onto, for the reported "
                "instant or later); it is compared with the uninterrupted run that finds the same messages in its event set from "
                "the start: same deliveries per module, same number of dispatched events, same end time",
        "fault_probes": ["external_add_while_paused", "cut_inside_tie_group", "cut_with_two_or_more_pending", "message_injected_while_paused"],
        "expected_probes": ["external_add_while_paused", "cut_inside_tie_group", "cut_with_two_or_more_pending",
                            "message_injected_while_paused", "message_injected_for_the_reported_instant", "program_late_in_a_long_simulation"],
        "components": {"real": ["des::runtime::{Runtime, Builder, RuntimeLimit, FutureEventSet}, des-cqueue (real code)",
                                "des::net (Sim, modules, gates, latency-only channels; one program in ten) (real code)"],
                       "stub": ["Application / Event implementations: harness interpreter of the generated program",
                                "scripted modules (network programs)"]},
        "assumptions": ["cqueue backend (default feature set)", "sampled programs and schedules, not exhaustive"],
    },
    "C11": {
        "engine": "rt",
        "technique": SIM_TECH + " (differential: limited run vs. unlimited run of the same program)",
        "level": "exploration",
        "level_text": "Seeded exploration over (event program x limit tree built through every builder path): the limited run must "
                      "handle exactly the prefix of the real unlimited sequence that an independent evaluator of the limit semantics "
                      "admits, return the rest as remaining events with their timestamps, and report count and end time. Sampled.",
        "level_note": "Trusted: the 10-line limit evaluator written from the property text.",
        "runs": {"quick": 2000000, "thorough": 50000000},
        "rule": "event programs as for C02/C03 x limits: max_itr / max_time / limit(tree) calls (combined with OR), trees of "
                "None/EventCount/SimTime/And/Or up to depth 3, counts around the number of events, times below/at/between/above "
                "timestamps; distinct = distinct program hash; non-trivial = the limit stopped the run with events remaining or "
                "sits exactly on a boundary (n == total, T == a timestamp)",
        "fault_probes": ["limit_stopped_run", "limit_on_boundary"],
        "expected_probes": ["limit_stopped_run", "limit_on_boundary", "handler_panic_caught_by_the_driver", "event_added_after_the_limit_stopped_the_run", "program_late_in_a_long_simulation"],
        "components": {"real": ["des::runtime::{Runtime, Builder, RuntimeLimit, Profiler} (real code)"],
                       "stub": ["Application / Event implementations: harness interpreter of the generated program"]},
        "assumptions": ["cqueue backend (default feature set)", "sampled programs and limits, not exhaustive"],
    },
    "C03": {
        "engine": "fes+rt+net",
        "technique": SIM_TECH,
        "level_text": "Seeded exploration of tie-heavy scheduling histories on the real calendar queue and on the real Runtime; the dispatch "
                      "order must equal, id by id, the order computed from the property's tie rule. Sampled, not exhaustive.",
        "level_note": "Trusted: the executable statement of the tie rule in the harness. Claimed for the cqueue backend only, as the property says.",
        "level": "exploration",
        "runs": {"quick": 1000000, "thorough": 17000000},
        "rule": "tie-heavy seeded histories (same-instant bursts, zero-delay inserts at the current instant, ties on year "
                "boundaries) on the real CQueue and event programs on the real Runtime; oracle = exact tie rule (events "
                "scheduled for the current instant first in FIFO order, then by (timestamp, scheduling order)); "
                "distinct = distinct program hash; non-trivial = a tie group >= 2 was created",
        "fault_probes": ["cancel_pending"],
        "expected_probes": ["tie_created", "add_at_current_time", "fetch_from_zero_bucket", "add_beyond_year",
                            "tie_rule_checked_under_stepping", "external_add_lands_in_tie_group", "one_bucket_spanning_the_whole_time_axis", "event_at_duration_max_fetched"],
        "components": {"real": REAL_FES + ["des::runtime::Runtime (real code)"], "stub": STUB_FES + ["Application / Event implementations"]},
        "assumptions": ["claimed for the cqueue backend only (default feature set), as the property says",
                        "sampled histories, not exhaustive"],
    },
    "C15": {
        "engine": "fes",
        "technique": SIM_TECH + "; crash point = dropping the queue at an arbitrary step",
        "level_text": "Seeded exploration with the queue dropped at an arbitrary step: every allocator event is replayed into a shadow "
                      "allocation map (disjointness, alignment, in-page placement, alloc/free pairing) and every payload carries a drop "
                      "counter and checksum. Sampled, not exhaustive; Miri is deliberately not part of the decision.",
        "level_note": "Trusted: the allocator observer hook reports what the allocator really does; payload types that do not fit a page are outside the property.",
        "level": "exploration",
        "runs": {"quick": 100000, "thorough": 700000},
        "rule": "seeded add/cancel/fetch histories ended by dropping the queue at an arbitrary step (crash point), for 9 "
                "payload types (1 B .. 2 KiB, align 1..16, with/without destructor, zero-sized) x page sizes "
                "{system,512,1024,4096,16384} x (n,t); oracle = shadow allocation map fed by the allocator observer hook "
                "+ per-payload drop ledger + payload checksum; distinct = distinct program hash; non-trivial = (>= 2 pages "
                "in use and a freed node address handed out again) or queue dropped with events pending",
        "fault_probes": ["dropped_with_pending", "dropped_with_zero_bucket_pending", "cancel_pending", "destructor_panic_during_cancel", "destructor_panic_injected", "queue_dropped_during_unwinding"],
        "expected_probes": ["dropped_with_pending", "dropped_with_zero_bucket_pending", "freed_node_reused", "multi_page_run",
                            "event_at_duration_max", "node_of_page_size_minus_8", "node_of_exactly_page_size", "destructor_panic_during_cancel"],
        "components": {"real": REAL_FES, "stub": STUB_FES},
        "assumptions": ["allocator observer hook reports every allocate/deallocate/page event truthfully",
                        "payloads whose node does not fit a page are outside the property and not generated",
                        "sampled histories, not exhaustive"],
    },
}

REAL_NET = ["des net layer: Sim/SimBuilder, ModuleContext, gates, channels, messages, processing stack, shutdown/restart, unwind harness (real code)", "des runtime + des-cqueue (real code)", "tokio current-thread runtime + LocalSet per module (real code)"]
STUB_NET = ["user code only: scripted modules, processing elements and message bodies interpreting the generated program"]

def net_prop(**kw):
    d = {"engine": "net", "level": "exploration", "technique": SIM_TECH,
         "components": {"real": REAL_NET, "stub": STUB_NET},
         "fault_probes": [], "expected_probes": []}
    d.update(kw)
    return d

PROPS.update({
    "C04": net_prop(
        engine="net+asy",
        technique=SIM_TECH + " (differential: same program and seed executed twice in one process and in separate processes with shifted global counters and heap)",
        level_text="Seeded exploration: generated multi-module models (jittered channels, random draws, chained/pre-scheduled timers, restarts) are "
                   "executed twice back to back in one process and again in a second set of worker processes that first run a seed-derived "
                   "number of unrelated simulations and allocate a heap prelude; all traces (time, module, message, random values, result) "
                   "must be identical. One program in six whose run ends without error hands the returned application to a second runtime (same seed) "
                   "and runs it again; both lives are part of the compared trace. No reference model is involved. Sampled, not exhaustive.",
        level_note="Trusted: the trace recorder (records never contain module ids, counters or addresses).",
        runs={"quick": 100000, "thorough": 4500000},
        rule="generated network models x des seeds; each executed 2x in-process and 1x in another process after warm-up sims; distinct = "
             "distinct program hash; non-trivial = the trace contains a jittered delivery or a random draw",
        fault_probes=["other_thread_set_up_a_simulation_during_a_handler"],
        expected_probes=["topology_routes_queried", "other_thread_set_up_a_simulation_during_a_handler", "application_run_a_second_time"],
        assumptions=["traces abstract from process-dependent identities by construction", "sampled programs, not exhaustive"]),
    "C07": net_prop(
        level_text="Seeded exploration: traffic patterns (bursts, gaps below / equal to / above the transmission time, sizes 64 B..4 KiB) over "
                   "channels from a metrics menu (bitrate 0..1e9, latency, jitter, Drop / Queue(None) / Queue(limit)) run on the real net layer; a "
                   "per-direction channel model is stepped through the recorded offers (busy flag and finish time observed right before each "
                   "send) and every offered message must be delivered exactly once in its time window or dropped by the stated rule.",
        level_note="Trusted: the channel model (60 lines) and Duration::from_secs_f64 for size*8/bitrate. At an exact tie between an offer and the end of a transmission both orders are accepted and followed.",
        runs={"quick": 600000, "thorough": 15000000},
        rule="sender/receiver pairs with one channel each (both directions used) x metrics menu x offer schedules; distinct = distinct program "
             "hash; non-trivial = at least one offer met a busy channel",
        fault_probes=["dropped_busy", "dropped_queue_full", "queued"],
        expected_probes=["dropped_busy", "dropped_queue_full", "queued", "offer_ties_with_end_of_transmission", "sender_panicked_after_offering"],
        assumptions=["message loss is injected through busy Drop channels and byte-bounded queues", "sampled, not exhaustive"]),
    "C08": net_prop(
        level_text="Seeded exploration: gate chains of 1..16 hops over 2..8 modules built from connect calls in random order and orientation "
                   "(with idempotent repeats, self-connects and third-peer connects mixed in), channels on random hops, sends from both "
                   "ends, immediate and delayed; the harness keeps its own graph of the connect calls and predicts receiver, arrival time, header "
                   "fields and the path enumeration of every gate.",
        level_note="Trusted: the harness graph model; channels are kept idle by spacing so only C08's clauses are exercised. A rejected connect ends the build (the gate stays locked after the panic).",
        runs={"quick": 1000000, "thorough": 30000000},
        rule="chain shapes x connect permutations/orientations x channel placement x both directions x send / send_in; distinct = distinct "
             "program hash; non-trivial = a chain of >= 3 gates exists and at least one message was sent",
        fault_probes=["illegal_connect_rejected"],
        expected_probes=["illegal_connect_rejected", "chain_of_three_or_more_gates", "delayed_send", "hop_with_channel", "offer_over_a_link_connected_at_run_time", "delayed_send_issued_before_its_gate_was_connected"],
        assumptions=["jitter 0 on all channels of C08 scenarios", "sampled, not exhaustive"]),
    "C12": net_prop(
        level_text="Seeded exploration: module trees (depth <= 4, fan-out <= 5, prefix-sharing names) inserted in random valid orders with 1..4 "
                   "start stages per module, invalid builder calls mixed in, ordinary traffic afterwards; the recorded at_sim_start / "
                   "at_sim_end calls must equal the stage-major depth-first pre-order sequence computed from the declared tree. One fault-free program in five "
                   "hands the application that run() returns to a second runtime and runs it again: both simulations must show the complete life cycle.",
        level_note="Trusted: the reference sequence generator (20 lines). The schedule dimension of this property is the insertion order.",
        runs={"quick": 400000, "thorough": 17000000},
        rule="module trees x valid insertion orders x stage counts; distinct = distinct program hash; non-trivial = insertion order differs "
             "from pre-order and some module declares >= 2 stages",
        fault_probes=["invalid_node_rejected"],
        expected_probes=["invalid_node_rejected", "insertion_order_differs_from_preorder", "tree_query", "inner_application_fails_at_the_end", "application_run_a_second_time"],
        assumptions=["sampled, not exhaustive"]),
    "C14": net_prop(
        engine="net+asy",
        level_text="Seeded exploration: processing stacks of 0..6 scripted elements (pass / modify / consume, optionally sending from a hook) "
                   "supplied globally (with_stack / set_stack) and per module (appended / prepended) under message, start-up, restart and "
                   "tear-down events; the recorded hook calls are parsed against the bracket grammar of the property.",
        level_note="Trusted: the bracket parser. Module::reset runs outside brackets and is skipped by the parser; timer wake-up brackets are covered by the async scenarios.",
        runs={"quick": 300000, "thorough": 20000000},
        rule="processing stacks x event kinds x message sequences; distinct = distinct program hash; non-trivial = a stack of >= 2 elements, "
             ">= 1 consumed message and >= 1 non-message event",
        fault_probes=["message_consumed_by_element"],
        expected_probes=["message_consumed_by_element", "bracket_checked", "emission_delivery_checked", "element_requested_shutdown"],
        assumptions=["sampled, not exhaustive"]),
})

PROPS.update({
    "C09": net_prop(
        engine="net+asy",
        technique=SIM_TECH + "; faults = shutdown / shutdown-and-restart requests injected into running models",
        level_text="Seeded exploration with fault injection: shutdown(), shutdow_and_restart_in/at (restart delays incl. 0) are attached to "
                   "scripted timers or to the n-th receive of 1..3 victim modules inside models with open-loop traffic, latency-only "
                   "channels and transit gates owned by victims (in half of the models with a transit module its two gates are connected to each other, so that traffic really passes through it; in a quarter of the models every module lives in a box of its own and all carry the same local name); a history checker derives the downtime intervals from the recorded requests "
                   "and checks that nothing of a victim runs inside them, that reset / start-up stages happen exactly once at the "
                   "requested instant, that messages are dropped iff a module on their way is down when they pass, and that all other "
                   "traffic and timers are untouched.",
        level_note="Trusted: the downtime history checker and the gate-graph model. Events at the exact shutdown / restart instant are accepted either way (the property does not rank them).",
        runs={"quick": 300000, "thorough": 11000000},
        rule="multi-module models x shutdown/restart faults (from handlers, on n-th receive, several victims, up to 3 cycles each); "
             "distinct = distinct program hash; non-trivial = a shutdown happened and a message or timer fell strictly inside the downtime",
        fault_probes=["shutdown_cycles", "restart_completed", "message_or_timer_inside_downtime"],
        expected_probes=["shutdown_cycles", "restart_completed", "message_or_timer_inside_downtime", "joined_task_of_a_module_that_was_shut_down", "observing_element_on_a_module_that_was_shut_down"],
        assumptions=["only latency-only channel hops are predicted (busy channels are C07's subject)", "sampled, not exhaustive"]),
    "C13": net_prop(
        engine="net+asy",
        technique=SIM_TECH + "; faults = panics injected into module callbacks; oracle = differential twin run",
        level_text="Seeded exploration with fault injection: panics are placed in handle_message (on a scripted timer or on the n-th receive, "
                   "while the handler holds the message), at_sim_start(stage) and at_sim_end of 1..3 modules with catching / non-catching "
                   "stereotypes. Every run is compared with a twin run of the same program and seed in which the faulty module merely stops "
                   "and ignores everything: all other modules must have identical histories; the victim must fall silent and be inactive; "
                   "run() must report exactly the non-catching victims; a reference simulation run afterwards in the same process must equal "
                   "its fresh-process trace.",
        level_note="Trusted: the twin construction (victims send immediately only and own no transit gates, so 'fallen silent' is unambiguous).",
        runs={"quick": 100000, "thorough": 6500000},
        rule="multi-module models x panic placements (module x callback x occurrence, several victims) x stereotypes; distinct = distinct "
             "program hash; non-trivial = at least one module panicked and a healthy module kept working afterwards",
        fault_probes=["module_panicked"],
        expected_probes=["module_panicked", "joined_block_handler_fails_after_asking_for_a_restart"],
        assumptions=["for joined-task panics only non-abort, attribution and isolation are demanded (DESIGN section 8)", "sampled, not exhaustive"]),
    "C16": net_prop(
        technique=SIM_TECH + "; faults = message loss at every place the system can lose a message",
        level_text="Seeded exploration: 20 body types (primitives, String, Option/Result, Vec/VecDeque/array, Box, derived structs/enums incl. "
                   "generic and nested ones, zero-sized, non-clonable) carry ledger tokens through models that lose messages on busy Drop "
                   "channels, full queues, shut-down receivers, panicking handlers and limit stops; receivers and consuming elements apply "
                   "generated sequences of typed read, wrong-type read / cast (incl. layout-compatible types), try_clone / clone, failed and "
                   "successful casts. Every token must be dropped exactly once, values must come back unchanged, and Message::length must be "
                   "64 + the independently computed declared length, which is also the size an idle channel is observed to charge.",
        level_note="Trusted: the per-type length table written from the property text and the token ledger.",
        runs={"quick": 300000, "thorough": 22000000},
        rule="body types x operation sequences x loss faults; distinct = distinct program hash; non-trivial = >= 1 clone, >= 1 failed cast and "
             ">= 1 message lost to a fault",
        fault_probes=["message_lost_to_fault", "failed_cast", "wrong_type_access"],
        expected_probes=["message_lost_to_fault", "failed_cast", "wrong_type_access", "clone", "try_clone", "successful_cast", "length_vs_channel_time_checked", "busy_period_vs_length_checked"],
        assumptions=["sampled, not exhaustive"]),
    "C20": net_prop(
        engine="net+asy",
        technique=SIM_TECH + "; crash points = every way and (for small programs) every event index at which the simulation can be stopped and dropped",
        level_text="Seeded exploration with crash-point enumeration: models with module trees, gate chains and rings, channels with backlog, "
                   "processing elements, shut-down / restarted / panicking modules, all holding ledger tokens, are dropped before build, before "
                   "start, after a time limit, after completion, after errors and - for every sampled program without its own limit - after "
                   "EventCount(k) for every k up to 40; the result tuple is dropped in every order; one error-free program in three is also run a second time (the returned application in a new runtime) before it is dropped; a quarter of the programs are built, run and dropped with a tracing subscriber installed that accepts every level and formats every field (log arguments are evaluated only then; the worker builds des with its `tracing` feature, which compiles des's own log statements in and changes nothing else). Every token must have been dropped "
                   "exactly once; afterwards a reference simulation in the same process must equal its fresh-process trace.",
        level_note="Trusted: the token ledger. Programs are sampled; stop points of a sampled program are enumerated up to 40.",
        runs={"quick": 40000, "thorough": 1700000},
        rule="generated simulations x stopping points; distinct = distinct program hash; non-trivial = some stop point left messages undelivered "
             "(in the event set or in channel queues)",
        fault_probes=["stop_point_enumerated", "dropped_before_build", "dropped_before_start", "ended_with_errors"],
        expected_probes=["stop_point_enumerated", "dropped_before_build", "dropped_before_start", "ended_with_errors", "other_thread_waited_for_its_simulation", "dropped_after_a_second_run", "run_with_logging_enabled", "log_events_formatted"],
        assumptions=["sampled programs; stop points enumerated per program up to a bound"]),
})

PROPS.update({
    "C05": net_prop(
        engine="asy",
        technique=SIM_TECH + "; nondeterminism = relative order of timer creation / reset / drop / cancellation across the tasks of a module",
        level_text="Seeded exploration: 1..4 modules with 1..6 scripted tasks each (sleep, sleep_until incl. reached deadlines, timeout over "
                   "sleep / ready / never, select! over 2..3 sleeps with equal and different deadlines, pinned sleep that is reset before or "
                   "after its first poll, intervals with all three missed-tick behaviours and late ticks) run on the real time driver and the "
                   "real per-module tokio runtime; a virtual-time evaluator of the scripts gives the exact instant and outcome of every await.",
        level_note="Trusted: the script evaluator (200 lines). Interval lateness is kept off the undocumented (0, 5 ms] band; at equal select! deadlines any minimal branch is accepted.",
        runs={"quick": 500000, "thorough": 20000000},
        rule="async module programs x deadline orders; distinct = distinct program hash; non-trivial = a module with >= 2 tasks in which a "
             "timer is dropped, reset or loses a select/timeout while other timers of the module are pending",
        fault_probes=["task_polls"],
        expected_probes=["task_polls", "timer_created_on_another_thread"],
        assumptions=["tasks of one module do not communicate in C05 scenarios (they share only the module's timer queue)", "sampled, not exhaustive"]),
    "C06": net_prop(
        engine="asy",
        technique=SIM_TECH + "; nondeterminism = number of simultaneously runnable tasks, wake-chain depth and per-poll work",
        level_text="Seeded exploration: (a) k tasks of one module due at the same instant, (b) wake chains A->B->C... through channels inside one "
                   "instant, (c) one task doing w channel receives in a single poll, spawned with tokio::spawn and spawn_local, triggered by "
                   "timer wake-ups, start-up and messages; every resumption must be logged at exactly the instant its condition became true. "
                   "Most runs stay below the executor's budgets; 1 in 12 goes far beyond (62..3000 tasks, chains, >= 128 receives) and "
                   "reproduces the open known finding.",
        level_note="Trusted: the script evaluator; a poll counter (future adapter + invisible processing element) supplies the facts the known-finding predicate is matched on.",
        runs={"quick": 200000, "thorough": 700000},
        rule="async module programs x number of runnable tasks x chain depth x per-poll work; distinct = distinct program hash; non-trivial = an "
             "instant with >= 2 task resumptions",
        fault_probes=["module_event_with_61_or_more_polls"],
        expected_probes=["module_event_with_61_or_more_polls", "task_polls", "block_handler_awaits_spawned_worker", "timer_created_on_another_thread"],
        assumptions=["sampled, not exhaustive"]),
})
