#!/usr/bin/env python3
"""Writes seeded/<id>/meta.json and seeded/SUMMARY.md from the confirmation runs and the check matrix."""
import json, os, re, sys
ROOT = "/verif/seeded"
RES = sys.argv[1] if len(sys.argv) > 1 else "/tmp/mt/results"
rows = []
for sid in sorted(d for d in os.listdir(ROOT) if os.path.isdir(os.path.join(ROOT, d))):
    pid = sid.split("-")[0]
    d = os.path.join(ROOT, sid)
    readme = open(os.path.join(d, "README.md")).read()
    diff = open(os.path.join(d, "patch.diff")).read()
    files = sorted(set(re.findall(r"^\+\+\+ b/(\S+)", diff, re.M)))
    demo = [f for f in os.listdir(d) if f.endswith(".rs")]
    # three sources, oldest first: the full 17-check matrix of rounds 1+2 (RES/<id>.txt), the first pass of round 3
    # (own + related checks, RES/../results3_<id>.txt) and the final pass with the final checks (own check and the
    # checks known to state the broken clause, RES/../final/<id>.txt). For a check that appears in several passes the
    # latest pass counts.
    verdict, lines, raw = {}, {}, []
    for label, resf in (("matrix of all 17 checks (rounds 1 and 2, checks as they were then)", os.path.join(RES, sid + ".txt")),
                        ("first pass of round 3 (own and related checks, before the extensions it drove)", os.path.join(RES, "..", "results3_" + sid + ".txt")),
                        ("final pass (final checks)", os.path.join(RES, "..", "final", sid + ".txt"))):
        if not os.path.exists(resf):
            continue
        txt = open(resf).read()
        raw.append("##### " + label + "\n" + txt)
        for m in re.finditer(r"^### \S+:(.*)$", txt, re.M):
            for t in m.group(1).split():
                if "=" not in t:
                    continue
                k, v = t.split("=")
                verdict[k] = v
                lines.pop(k, None)
        for l in txt.splitlines():
            m = re.match(r"\s*\[(C\d+)\]\s*(.*rule=.*)", l)
            if m and m.group(1) not in lines:
                lines[m.group(1)] = l.strip()
    if raw:
        open(os.path.join(d, "check_results.txt"), "w").write("\n".join(raw))
    caught = sorted(k for k, v in verdict.items() if v == "1")
    caught.sort(key=lambda k: (k != pid, k))
    detail = [lines[k] for k in caught if k in lines]
    needs = ""
    for key in ("Needed to manifest", "needs", "Trigger", "What it takes", "manifest"):
        m = re.search(r"(?im)^.*%s.*$" % re.escape(key), readme)
        if m:
            needs = m.group(0).strip()[:600]
            break
    obsolete = os.path.exists(os.path.join(d, "OBSOLETE.md"))
    meta = {
        "id": sid,
        "obsolete_on_current_head": obsolete,
        "property": pid,
        "source": "independent sub-agent working in a scratch worktree of /repo with only the text of the property",
        "files_changed": files,
        "demonstration": demo,
        "what_it_needs_to_manifest": needs or "see README.md",
        "confirmed_by_me": {
            "how": "tools/confirm_seed.sh in the agent's worktree: git apply patch; cargo test --workspace --offline; copy demo into <crate>/tests; cargo test --test <demo>; git checkout -- .; cargo test --test <demo>",
            "suite_with_change": "266 passed, 0 failed (same as unmodified tree)",
            "demo_with_change": "fails (exit 101)",
            "demo_without_change": "passes",
        },
        "checks_run": "quick checks against a separate copy of /repo with the patch applied (see check_results.txt for the passes: full 17-check matrix for rounds 1 and 2, own and related checks for round 3, final pass of the own check with the final code), then reverted",
        "checks_that_ran": sorted(verdict),
        "caught_by": caught,
        "caught_by_own_property_check": pid in caught,
        "first_violation_lines": detail[:4],
    }
    json.dump(meta, open(os.path.join(d, "meta.json"), "w"), indent=1)
    if obsolete:
        rows.append((sid, "", ", ".join(files), "(obsolete: no longer breaks the property on the current HEAD, see OBSOLETE.md)", ""))
        continue
    rows.append((sid, pid, ", ".join(files), ", ".join(caught) or "-", (detail[0] if detail else "")[:160]))
with open(os.path.join(ROOT, "SUMMARY.md"), "w") as f:
    f.write("# Seeded property-breaking changes and the checks that catch them\n\n")
    f.write("| seed | files | caught by | first violation |\n|---|---|---|---|\n")
    for r in rows:
        f.write("| %s | %s | %s | %s |\n" % (r[0], r[2], r[3], r[4].replace("|", "/")))
    live = [r for r in rows if r[1]]
    own = sum(1 for r in live if r[1] in r[3].split(", "))
    f.write("\n%d changes stored, %d of them still break their property on the current HEAD; of these %d are caught by the check of the property they were written against and %d by some check.\n"
            % (len(rows), len(live), own, sum(1 for r in live if r[3] != "-")))
print(len(rows), "seeds")
