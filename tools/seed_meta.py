#!/usr/bin/env python3
"""Writes seeded/<id>/meta.json and seeded/SUMMARY.md from the confirmation runs and the check matrix."""
import json, os, re, sys
ROOT = "/verif/seeded"
RES = sys.argv[1] if len(sys.argv) > 1 else "/tmp/mt/results"
rows = []
for sid in sorted(d for d in os.listdir(ROOT) if os.path.isdir(os.path.join(ROOT, d))):
    pid = sid.split("-")[0]
    d = os.path.join(ROOT, sid)
    readme = open(os.path.join(d, "README.md")).read()
    diff = open(os.path.join(d, "patch.diff")).read()
    files = sorted(set(re.findall(r"^\+\+\+ b/(\S+)", diff, re.M)))
    demo = [f for f in os.listdir(d) if f.endswith(".rs")]
    resf = os.path.join(RES, sid + ".txt")
    caught, detail = [], []
    if os.path.exists(resf):
        txt = open(resf).read()
        open(os.path.join(d, "check_results.txt"), "w").write(txt)
        m = re.search(r"^### \S+:(.*)$", txt, re.M)
        if m:
            caught = [t.split("=")[0] for t in m.group(1).split() if t.endswith("=1")]
        detail = [l.strip() for l in txt.splitlines() if "rule=" in l]
    needs = ""
    for key in ("Needed to manifest", "needs", "Trigger", "What it takes", "manifest"):
        m = re.search(r"(?im)^.*%s.*$" % re.escape(key), readme)
        if m:
            needs = m.group(0).strip()[:600]
            break
    meta = {
        "id": sid,
        "property": pid,
        "source": "independent sub-agent working in a scratch worktree of /repo with only the text of the property",
        "files_changed": files,
        "demonstration": demo,
        "what_it_needs_to_manifest": needs or "see README.md",
        "confirmed_by_me": {
            "how": "tools/confirm_seed.sh in the agent's worktree: git apply patch; cargo test --workspace --offline; copy demo into <crate>/tests; cargo test --test <demo>; git checkout -- .; cargo test --test <demo>",
            "suite_with_change": "266 passed, 0 failed (same as unmodified tree)",
            "demo_with_change": "fails (exit 101)",
            "demo_without_change": "passes",
        },
        "checks_run": "all 17 quick checks against /repo with the patch applied (tools/run_seed.sh equivalent on a separate copy), then reverted",
        "caught_by": caught,
        "caught_by_own_property_check": pid in caught,
        "first_violation_lines": detail[:4],
    }
    json.dump(meta, open(os.path.join(d, "meta.json"), "w"), indent=1)
    rows.append((sid, pid, ", ".join(files), ", ".join(caught) or "-", (detail[0] if detail else "")[:160]))
with open(os.path.join(ROOT, "SUMMARY.md"), "w") as f:
    f.write("# Seeded property-breaking changes and the checks that catch them\n\n")
    f.write("| seed | files | caught by | first violation |\n|---|---|---|---|\n")
    for r in rows:
        f.write("| %s | %s | %s | %s |\n" % (r[0], r[2], r[3], r[4].replace("|", "/")))
    own = sum(1 for r in rows if r[1] in r[3].split(", "))
    f.write("\n%d seeds; %d caught by the check of the property they were written against; %d caught by some check.\n"
            % (len(rows), own, sum(1 for r in rows if r[3] != "-")))
print(len(rows), "seeds")
