#!/bin/bash
# usage: tools/soak.sh <seeds...>  : every check at 5x the quick budget for each seed; prints only alarms
mult=${MULT:-5}
for s in "$@"; do
  for p in C01 C02 C03 C04 C05 C06 C07 C08 C09 C10 C11 C12 C13 C14 C15 C16 C20; do
    n=$(python3 -c "import props; print(props.PROPS['$p']['runs']['quick']*$mult)")
    out=$(VERIF_SEED=$s python3 check.py $p --runs $n 2>&1); code=$?
    echo "seed=$s $p exit=$code $(echo "$out" | grep -E 'check.py: C' | sed 's/.*runs=/runs=/')"
    [ $code -ne 0 ] && echo "$out" | grep -E "VIOLATION|rule=|harness" | head -3
    [ $code -ne 0 ] && cp replays/$p-*.json /tmp/ 2>/dev/null
  done
done
