#!/bin/bash
# usage: tools/mutant.sh <patch-file> <prop> [<prop>...]   (env RUNS= to override run count)
# Applies the patch to /repo, runs the quick checks, and reverts /repo whatever happens.
set -u
patch="$(realpath "$1")"; shift
cd /repo || exit 2
if ! git diff --quiet; then echo "repo dirty; refusing"; exit 2; fi
git apply "$patch" || { echo "patch does not apply"; exit 2; }
trap 'git -C /repo checkout -- . ' EXIT
cd /verif
for p in "$@"; do
  if [ -n "${RUNS:-}" ]; then out=$(python3 check.py "$p" --runs "$RUNS" 2>&1); else out=$(python3 check.py "$p" 2>&1); fi
  code=$?
  echo "== $p exit=$code"; echo "$out" | grep -E "VIOLATION|rule=|KNOWN|harness|error" | head -5
done
