#!/bin/bash
# usage: confirm_seed.sh <worktree> <seed-dir-name>   e.g. /tmp/wt-C01 C01-s1
# Confirms in the scratch worktree: suite passes with the change, demo fails with it, demo passes without it.
wt="$1"; sd="$2"; src="$wt/SEEDED/$sd"
cd "$wt" || exit 2
git checkout -q -- . ; git clean -fdq -e SEEDED -e target
demo=$(ls "$src"/*.rs | head -1); dn=$(basename "$demo" .rs)
if grep -q "des_cqueue" "$demo" && ! grep -q "use des::" "$demo"; then crate=des-cqueue; else crate=des; fi
mkdir -p $crate/tests
git apply "$src/patch.diff" || { echo "RESULT $sd patch-does-not-apply"; exit 1; }
if [ -n "$SKIP_SUITE" ]; then suite="skipped"; else
suite=$(cargo test --workspace --offline 2>&1 | grep -E "^test result" | awk '{p+=$4; f+=$6} END {print p"/"f}')
fi
cp "$demo" $crate/tests/$dn.rs
cargo test --offline -p $crate --test $dn > /tmp/demo_with.$$.log 2>&1; with=$?
# a change that no longer compiles is not a failing demonstration
grep -q "^test result" /tmp/demo_with.$$.log || with="BUILD-ERROR" 
git checkout -q -- .
cargo test --offline -p $crate --test $dn > /tmp/demo_without.$$.log 2>&1; without=$?
rm -f $crate/tests/$dn.rs; rmdir $crate/tests 2>/dev/null
git checkout -q -- . 
rm -f /tmp/demo_with.$$.log /tmp/demo_without.$$.log
echo "RESULT $sd crate=$crate suite(passed/failed)=$suite demo_with_change_exit=$with demo_without_change_exit=$without"
