#!/usr/bin/env python3
"""Writes /verif/MANIFEST.json from props.py so the two never drift."""
import json, os, subprocess, sys
ROOT = os.path.dirname(os.path.dirname(os.path.abspath(__file__)))
sys.path.insert(0, ROOT)
from props import PROPS, NOT_APPLICABLE, UNCLAIMED  # noqa

hooks = subprocess.run(["git", "-C", "/repo", "log", "--format=%h %s"], stdout=subprocess.PIPE, text=True).stdout.splitlines()
hook_commits = [l.split()[0] for l in hooks if "verif hook" in l]

checks = []
for pid in sorted(PROPS):
    c = PROPS[pid]
    checks.append({
        "property_id": pid,
        "quick_cmd": "python3 check.py %s --tier quick" % pid,
        "thorough_cmd": "python3 check.py %s --tier thorough" % pid,
        "evidence_file": "/verif/evidence/%s.json" % pid,
        "replay_cmd_template": "python3 check.py replay {path}",
        "engine": c["engine"],
        "level_claimed": {"category": c["level"], "text": c["level_text"], "design_ref": c.get("design_ref", "DESIGN.md section 4, " + pid)},
        "level_note": c["level_note"],
        "technique": c["technique"],
    })
engines = {}
for pid in sorted(PROPS):
    for e in PROPS[pid]["engine"].split("+"):
        engines.setdefault(e, []).append(pid)
manifest = {
    "version": 1,
    "setup_cmd": "python3 check.py build",
    "hooks": {
        "guard": "--cfg petrichorit_des_verif",
        "enable": "rustflags in /verif/sim/.cargo/config.toml: --cfg tokio_unstable --cfg petrichorit_des_verif (the dsim crate depends on /repo/des and /repo/des-cqueue by path, so every check rebuilds from /repo's working tree)",
        "baseline_off_cmd": "cd /repo && cargo test --workspace --no-fail-fast --offline",
        "source_commits": hook_commits,
        "add_only": True,
    },
    "engines": [{"name": e, "path": "/verif/sim/src/%s.rs" % e, "serves_properties": ps,
                 "kind_free_text": "seeded program generator + interpreter driving the real code + reference-model / history oracle"} for e, ps in sorted(engines.items())],
    "checks": checks,
    "notes": "Deterministic simulation with fault injection; one integer (VERIF_SEED) decides every generated program, fault list and step schedule. See DESIGN.md. " + UNCLAIMED,
    "not_applicable": NOT_APPLICABLE,
}
json.dump(manifest, open(os.path.join(ROOT, "MANIFEST.json"), "w"), indent=1)
print("MANIFEST.json written: %d checks, %d not applicable" % (len(checks), len(NOT_APPLICABLE)))
