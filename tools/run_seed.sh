#!/bin/bash
# usage: run_seed.sh <seed-id> [props...]  -> applies seeded/<id>/patch.diff to /repo, runs the quick checks, reverts
id="$1"; shift
props="$@"; [ -z "$props" ] && props="C01 C02 C03 C04 C07 C08 C10 C11 C12 C14 C15"
cd /verif
out=$(tools/mutant.sh seeded/$id/patch.diff $props 2>&1)
echo "$out" > seeded/$id/check_results.txt
echo "### $id: $(echo "$out" | grep -E '^== ' | tr '\n' ' ')"
echo "$out" | grep -E "rule=" | head -12
