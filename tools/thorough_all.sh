#!/bin/bash
# runs every thorough check once and prints one line each
for p in C06 C15 C20 C04 C13 C01 C09 C07 C03 C12 C05 C14 C16 C02 C08 C10 C11; do
  s=$(date +%s); out=$(python3 check.py $p --tier thorough 2>&1); code=$?; e=$(date +%s)
  echo "$p exit=$code secs=$((e-s)) $(echo "$out" | grep -E 'check.py: C' | sed 's/.*runs=/runs=/')"
  [ $code -ne 0 ] && echo "$out" | grep -E "VIOLATION|rule=|harness" | head -3
done
