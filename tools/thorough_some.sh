#!/bin/bash
# usage: tools/thorough_some.sh <props...>   runs the thorough check of the given properties once, one line each
for p in "$@"; do
  s=$(date +%s); out=$(python3 check.py $p --tier thorough 2>&1); code=$?; e=$(date +%s)
  echo "$p exit=$code secs=$((e-s)) $(echo "$out" | grep -E 'check.py: C' | sed 's/.*runs=/runs=/')"
  [ $code -ne 0 ] && echo "$out" | grep -E "VIOLATION|rule=|harness" | head -3
done
exit 0
