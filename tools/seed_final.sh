#!/bin/bash
# usage: tools/seed_final.sh [ids...]   (default: every directory under /verif/seeded)
# Runs, for every seeded change, the quick check of the property it was written against (plus the checks listed in
# ALSO for changes whose author's classification differs from the property that really states the broken clause)
# on the separate copy /tmp/mt/{repo,verif} (so that /repo itself stays untouched), with the current /verif code.
# Results: /tmp/mt/final/<id>.txt
mkdir -p /tmp/mt/final
rsync -a --delete --exclude .work --exclude sim/target --exclude sim/Cargo.toml /verif/ /tmp/mt/verif/
git -C /tmp/mt/repo checkout -q -- . && git -C /tmp/mt/repo checkout -q --detach "$(git -C /repo rev-parse HEAD)"
ids="$@"; [ -z "$ids" ] && ids=$(ls -d /verif/seeded/C*/ | xargs -n1 basename)
declare -A ALSO=( [C06-s2]="C05 C09" [C06-s4]="C05" [C06-s5]="C05" [C02-s6]="C10" [C11-s4]="C10" [C11-s5]="C10" [C16-s8]="C07 C08" [C14-s9]="C09" )
for id in $ids; do
  own=${id%%-*}
  RUNS_DIV=1 /tmp/mt/run_patch.sh /verif/seeded/$id/patch.diff $id $own ${ALSO[$id]} > /tmp/mt/final/$id.txt 2>&1
  head -2 /tmp/mt/final/$id.txt
done
