#!/bin/bash
# usage: PROPS="C01 C02" MULT=2 tools/soak_some.sh <seeds...> : the given checks at MULT x the quick budget for each seed
mult=${MULT:-2}
for s in "$@"; do
  for p in $PROPS; do
    n=$(python3 -c "import props; print(props.PROPS['$p']['runs']['quick']*$mult)")
    out=$(VERIF_SEED=$s python3 check.py $p --runs $n 2>&1); code=$?
    echo "seed=$s $p exit=$code $(echo "$out" | grep -E 'check.py: C' | sed 's/.*runs=/runs=/')"
    [ $code -ne 0 ] && echo "$out" | grep -E "VIOLATION|rule=|harness" | head -3
  done
done
exit 0
