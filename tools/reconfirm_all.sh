#!/bin/bash
# usage: tools/reconfirm_all.sh [jobs]   Re-runs the demonstration of every stored change on the current /repo HEAD
# (with the change: must fail; without: must pass), in <jobs> scratch worktrees under /tmp. Results: /tmp/reconfirm/<id>.txt
jobs=${1:-4}
mkdir -p /tmp/reconfirm
ids=( $(ls -d /verif/seeded/C*/ | xargs -n1 basename) )
for j in $(seq 0 $((jobs-1))); do
  (
    wt=/tmp/wt-reconf$j
    git -C /repo worktree add --detach $wt HEAD -q 2>/dev/null
    for k in $(seq $j $jobs $((${#ids[@]}-1))); do
      id=${ids[$k]}
      rm -rf $wt/SEEDED; mkdir -p $wt/SEEDED/$id; cp /verif/seeded/$id/* $wt/SEEDED/$id/
      SKIP_SUITE=1 /verif/tools/confirm_seed.sh $wt $id 2>&1 | grep RESULT > /tmp/reconfirm/$id.txt
    done
    git -C /repo worktree remove --force $wt; rm -rf $wt
  ) &
done
wait
cat /tmp/reconfirm/*.txt | grep -v "demo_with_change_exit=101 demo_without_change_exit=0"
