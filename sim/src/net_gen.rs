//! Generators of net programs, one scenario family per property.

use crate::common::Tier;
use crate::net::*;
use crate::net_oracles::busy_ns;
use crate::prng::Rng;

const SEC: u64 = 1_000_000_000;

fn gate_specs(rng: &mut Rng, min_flat: usize) -> Vec<(String, u8)> {
    let mut v = Vec::new();
    let mut flat = 0;
    let mut k = 0;
    while flat < min_flat || (flat < 8 && rng.chance(1, 3)) {
        if rng.chance(1, 3) {
            let size = 2 + rng.below(3) as u8;
            v.push((format!("c{k}"), size));
            flat += size as usize;
        } else {
            v.push((format!("s{k}"), 1));
            flat += 1;
        }
        k += 1;
    }
    v
}

fn cq(rng: &mut Rng, prog: &mut NetProgram, typical_gap_ns: u64) {
    // calendar-queue knobs: default, or scaled to the traffic so that a fetch never scans millions of buckets
    if typical_gap_ns > 50 * SEC || rng.chance(1, 3) {
        prog.n = *rng.pick(&[1usize, 2, 7, 64, 1028]);
        prog.t_ns = (typical_gap_ns / 4).max(1_000_000);
    } else {
        prog.n = 0;
        prog.t_ns = 0;
    }
}

// ---------------------------------------------------------------- C08

/// Dynamic topology: a hub whose spokes are partly wired by the builder and partly by the driver while the simulation
/// is paused, all links built from one shared channel handle (the "template" pattern). The later connect calls may
/// fall into a moment in which the shared handle is transmitting.
fn gen_c08_dynamic(rng: &mut Rng) -> NetProgram {
    let k = 2 + rng.small(3) as usize;
    let mut prog = NetProgram { seed: rng.u64(), share_channels: true, ..Default::default() };
    prog.modules.push(ModSpec { name: "hub".into(), parent: -1, stages: 1, gates: vec![("q".into(), k as u8)], panic_at: 255, ..Default::default() });
    for i in 0..k {
        prog.modules.push(ModSpec { name: format!("s{i}"), parent: -1, stages: 1, gates: vec![("q".into(), 1)], panic_at: 255, ..Default::default() });
    }
    prog.order = (0..=k as u32).collect();
    let bitrate = *rng.pick(&[8_000u64, 80_000, 1_000_000]);
    let tmpl = Chan { bitrate, latency_ns: *rng.pick(&[0u64, 1_000_000]), jitter_ns: 0, queue: -1 };
    let n_static = 1 + rng.usize(k - 1);
    // phase 1: traffic over the links of the builder keeps the shared handle (and the duplicates) transmitting
    let mut window = 0u64;
    for i in 0..n_static {
        prog.links.push(Link { am: 0, ag: i as u32, bm: 1 + i as u32, bg: 0, flip: rng.chance(1, 2), chan: Some(tmpl.clone()) });
        for (m, g) in [(0usize, i as u32), (1 + i, 0u32)] {
            if rng.chance(2, 3) {
                let n = 1 + rng.small(3) as usize;
                let mut acts = Vec::new();
                for _ in 0..n {
                    let body = rng.below(6) as u8;
                    window += busy_ns(64 + body_decl_len(body), bitrate);
                    acts.push(Act::Send { gate: g, delay_ns: 0, body });
                }
                prog.modules[m].beats.push(Beat { at_ns: SEC, acts });
            }
        }
    }
    // phase 2: the remaining spokes are connected at run time, inside or after the transmission window
    let mut last_link = SEC;
    for i in n_static..k {
        let at = SEC + match rng.below(4) {
            0 => window + 1 + rng.below(SEC),
            _ => 1 + rng.below(window.max(2)),
        };
        last_link = last_link.max(at);
        prog.late_links.push((at, Link { am: 0, ag: i as u32, bm: 1 + i as u32, bg: 0, flip: rng.chance(1, 2), chan: if rng.chance(5, 6) { Some(tmpl.clone()) } else { None } }));
    }
    // delayed sends issued while the gate has no peer yet; they leave the gate after the last connect call
    for i in n_static..k {
        for (m, g) in [(0usize, i as u32), (1 + i, 0u32)] {
            if rng.chance(1, 4) {
                let at = rng.below(SEC);
                prog.modules[m].beats.push(Beat { at_ns: at, acts: vec![Act::Send { gate: g, delay_ns: last_link + window + 50 * SEC - at + rng.below(SEC), body: rng.below(6) as u8 }] });
            }
        }
    }
    // phase 3: traffic over every link, both directions, well after the last connect call
    let mut t = last_link + window + 100 * SEC;
    for i in 0..k {
        for (m, g) in [(0usize, i as u32), (1 + i, 0u32)] {
            if rng.chance(3, 4) {
                let n = 1 + rng.small(2) as usize;
                let acts = (0..n).map(|_| Act::Send { gate: g, delay_ns: 0, body: rng.below(6) as u8 }).collect();
                prog.modules[m].beats.push(Beat { at_ns: t, acts });
                t += if rng.chance(1, 3) { 0 } else { 10 * SEC };
            }
        }
    }
    for m in &mut prog.modules {
        m.beats.sort_by_key(|b| b.at_ns);
    }
    cq(rng, &mut prog, 10 * SEC);
    prog
}

pub fn gen_c08(rng: &mut Rng, tier: Tier) -> NetProgram {
    if rng.chance(1, 8) {
        return gen_c08_dynamic(rng);
    }
    let nmod = 2 + rng.small(6) as usize;
    let mut prog = NetProgram { seed: rng.u64(), ..Default::default() };
    for i in 0..nmod {
        prog.modules.push(ModSpec { name: format!("m{i}"), parent: -1, stages: 1, gates: gate_specs(rng, 2), panic_at: 255, ..Default::default() });
    }
    prog.order = (0..nmod as u32).collect();
    // pool of unused gates
    let mut pool: Vec<(usize, usize)> = Vec::new();
    for (m, spec) in prog.modules.iter().enumerate() {
        for g in 0..flat_gates(spec).len() {
            pool.push((m, g));
        }
    }
    rng.shuffle(&mut pool);
    let max_hops = if tier == Tier::Thorough { 16 } else { 12 };
    let nchains = 1 + rng.small(3) as usize;
    let mut chain_links: Vec<Link> = Vec::new();
    let mut endpoints: Vec<(usize, usize)> = Vec::new();
    for _ in 0..nchains {
        if pool.len() < 2 {
            break;
        }
        let hops = (1 + rng.small(max_hops as u64 - 1) as usize).min(pool.len() - 1);
        let gates: Vec<(usize, usize)> = pool.drain(..=hops).collect();
        endpoints.push(gates[0]);
        endpoints.push(gates[hops]);
        for w in gates.windows(2) {
            let chan = if rng.chance(2, 5) {
                let bitrate = *rng.pick(&[0u64, 8_000, 1_000_000, 1_000_000_000]);
                Some(Chan {
                    bitrate,
                    latency_ns: *rng.pick(&[0u64, 1_000, 1_000_000, SEC]),
                    jitter_ns: if rng.chance(1, 4) { *rng.pick(&[1_000u64, 1_000_000]) } else { 0 },
                    // a hop that is never busy cannot lose anything, whatever its policy
                    queue: if bitrate == 0 && rng.chance(1, 2) { *rng.pick(&[-2i64, 0]) } else { -1 },
                })
            } else {
                None
            };
            chain_links.push(Link { am: w[0].0 as u32, ag: w[0].1 as u32, bm: w[1].0 as u32, bg: w[1].1 as u32, flip: rng.chance(1, 2), chan });
        }
    }
    // standalone gates that also get traffic (chain of length 0)
    for _ in 0..rng.small(2) {
        if let Some(g) = pool.pop() {
            endpoints.push(g);
        }
    }
    // connect calls in a random order, with idempotent repeats and illegal calls mixed in
    rng.shuffle(&mut chain_links);
    let mut links = Vec::new();
    for l in &chain_links {
        links.push(l.clone());
        if rng.chance(1, 6) {
            let mut d = l.clone();
            d.flip = rng.chance(1, 2);
            if rng.chance(1, 2) {
                std::mem::swap(&mut d.am, &mut d.bm);
                std::mem::swap(&mut d.ag, &mut d.bg);
            }
            links.push(d); // repeat: must be a no-op
        }
    }
    let n_illegal = rng.small(2) as usize;
    for _ in 0..n_illegal {
        if chain_links.is_empty() {
            break;
        }
        let l = rng.pick(&chain_links).clone();
        let pos = rng.usize(links.len() + 1);
        if rng.chance(1, 3) {
            links.insert(pos, Link { am: l.am, ag: l.ag, bm: l.am, bg: l.ag, flip: false, chan: None }); // gate to itself
        } else {
            // a third peer (only illegal once the gate has two peers; otherwise it is simply another link - then skip)
            let other = (rng.usize(nmod) as u32, rng.below(8) as u32);
            links.push(Link { am: l.am, ag: l.ag, bm: other.0, bg: other.1, flip: rng.chance(1, 2), chan: None });
        }
    }
    prog.links = links;
    // traffic: one send per endpoint gate per beat, beats 200 s apart
    let nbeats = 1 + rng.small(3) as usize;
    for b in 0..nbeats {
        for &(m, g) in &endpoints {
            if rng.chance(3, 4) {
                let at = (b as u64 + 1) * 200 * SEC + rng.below(3) * SEC;
                let delay = if rng.chance(1, 3) { 1 + rng.below(5 * SEC) } else { 0 };
                let body = rng.below(6) as u8;
                let beats = &mut prog.modules[m].beats;
                if let Some(bt) = beats.iter_mut().find(|x| x.at_ns == at) {
                    bt.acts.push(Act::Send { gate: g as u32, delay_ns: delay, body });
                } else {
                    beats.push(Beat { at_ns: at, acts: vec![Act::Send { gate: g as u32, delay_ns: delay, body }] });
                }
            }
        }
    }
    // bursts from one handler onto chains whose hops are never busy (bitrate 0 or no channel at all), judged on the
    // graph the connect calls really build (an intended "third peer" call is an ordinary link if both gates are free)
    {
        let graph = crate::net_oracles::build_graph(&prog);
        for &(m, g) in &endpoints {
            let hops = graph.walk((m, g));
            let never_busy = hops.iter().all(|h| h.1.as_ref().map_or(true, |c| c.bitrate == 0));
            if rng.chance(1, 4) && never_busy && graph.degree((m, g)) < 2 {
                if let Some(b) = prog.modules[m].beats.iter_mut().find(|b| b.acts.iter().any(|a| matches!(a, Act::Send { gate, delay_ns: 0, .. } if *gate == g as u32))) {
                    for _ in 0..1 + rng.small(3) {
                        b.acts.push(Act::Send { gate: g as u32, delay_ns: 0, body: rng.below(6) as u8 });
                    }
                }
            }
        }
    }
    // forwarding: a module re-sends the very message object it received, on an endpoint gate it does not use otherwise
    for _ in 0..rng.small(2) {
        let m = rng.usize(nmod);
        let own: Vec<usize> = endpoints.iter().filter(|e| e.0 == m).map(|e| e.1).collect();
        if own.len() >= 2 && prog.modules[m].rx.is_empty() {
            let gf = *rng.pick(&own) as u32;
            for b in &mut prog.modules[m].beats {
                b.acts.retain(|a| !matches!(a, Act::Send { gate, .. } if *gate == gf));
            }
            prog.modules[m].rx.push(RxRule { nth: 1 + rng.below(3) as u32, act: Act::Forward { gate: gf } });
        }
    }
    for m in &mut prog.modules {
        m.beats.sort_by_key(|b| b.at_ns);
        m.chained = rng.chance(1, 3);
    }
    cq(rng, &mut prog, 100 * SEC);
    prog
}

// ---------------------------------------------------------------- C10 (net level)

/// open-loop senders over channel-free or latency-only links; the driver pauses the run and puts messages onto gates
pub fn gen_c10_net(rng: &mut Rng, _tier: Tier) -> NetProgram {
    let nmod = 2 + rng.small(3) as usize;
    let mut prog = NetProgram { seed: rng.u64(), ..Default::default() };
    for i in 0..nmod {
        prog.modules.push(ModSpec { name: format!("m{i}"), parent: -1, stages: 1, gates: vec![("p".into(), 2)], panic_at: 255, ..Default::default() });
    }
    prog.order = (0..nmod as u32).collect();
    for i in 0..nmod {
        let j = (i + 1) % nmod;
        if i != j && !(nmod == 2 && i == 1) {
            let chan = if rng.chance(1, 2) { Some(Chan { bitrate: 0, latency_ns: *rng.pick(&[0u64, 1_000_000, 250_000_000]), jitter_ns: 0, queue: -1 }) } else { None };
            prog.links.push(Link { am: i as u32, ag: 1, bm: j as u32, bg: 0, flip: rng.chance(1, 2), chan });
        }
    }
    let unit = 250_000_000u64;
    for i in 0..nmod {
        let mut t = rng.below(4) * unit;
        for _ in 0..1 + rng.small(5) {
            let n = 1 + rng.small(3) as usize;
            let acts = (0..n).map(|_| if rng.chance(1, 3) { Act::SelfMsg { delay_ns: rng.below(3) * unit } } else { Act::Send { gate: rng.below(2) as u32, delay_ns: rng.below(3) * unit, body: 0 } }).collect();
            prog.modules[i].beats.push(Beat { at_ns: t, acts });
            t += rng.below(4) * unit;
        }
        prog.modules[i].chained = rng.chance(1, 2);
    }
    for _ in 0..1 + rng.small(3) {
        prog.injections.push(Inject {
            pause_ns: rng.below(16) * unit + if rng.chance(1, 3) { rng.below(unit) } else { 0 },
            delay_ns: if rng.chance(1, 2) { 0 } else { rng.below(4) * unit },
            m: rng.below(nmod as u64) as u32,
            gate: rng.below(2) as u32,
        });
    }
    cq(rng, &mut prog, unit);
    prog
}

// ---------------------------------------------------------------- C07

pub fn gen_c07(rng: &mut Rng, tier: Tier) -> NetProgram {
    let npairs = 1 + rng.small(3) as usize;
    let mut prog = NetProgram { seed: rng.u64(), ..Default::default() };
    let mut slowest_gap = 1_000_000u64;
    for p in 0..npairs {
        let s = prog.modules.len();
        prog.modules.push(ModSpec { name: format!("tx{p}"), parent: -1, stages: 1, gates: vec![("port".into(), 1)], panic_at: 255, ..Default::default() });
        prog.modules.push(ModSpec { name: format!("rx{p}"), parent: -1, stages: 1, gates: vec![("port".into(), 1)], panic_at: 255, ..Default::default() });
        let bitrate = *rng.pick(&[0u64, 1, 3, 800, 7_000, 10_000, 1_000_000, 1_234_567, 1_000_000_000, 25_000_000_000, 2_000_000_000_000, 10_000_000_000_000]);
        let latency = *rng.pick(&[0u64, 1_000, 1_000_000, SEC]);
        let jitter = if rng.chance(1, 3) { *rng.pick(&[1_000u64, 1_000_000]) } else { 0 };
        let queue = match rng.below(6) {
            0 | 1 => -2,
            2 => -1,
            3 => 0,
            _ => (64 + *rng.pick(&[0i64, 8, 100, 436])) * (1 + rng.below(3) as i64) + rng.below(3) as i64 - 1,
        };
        let chan = Chan { bitrate, latency_ns: latency, jitter_ns: jitter, queue };
        prog.links.push(Link { am: s as u32, ag: 0, bm: s as u32 + 1, bg: 0, flip: rng.chance(1, 2), chan: Some(chan) });
        // traffic in both directions
        let max_offers = if tier == Tier::Thorough { 200 } else { 60 };
        for (mi, share) in [(s, 1u64), (s + 1, 3u64)] {
            if share == 3 && rng.chance(1, 2) {
                continue;
            }
            let noffers = 1 + rng.small(max_offers / share) as usize;
            let mut t = rng.below(10) * 1000;
            let mut beats: Vec<Beat> = Vec::new();
            let mut made = 0;
            while made < noffers {
                let burst = (1 + rng.small(3) as usize).min(noffers - made);
                let mut acts = Vec::new();
                let mut last_len = 64;
                for _ in 0..burst {
                    let body = rng.below(6) as u8;
                    last_len = 64 + body_decl_len(body);
                    acts.push(Act::Send { gate: 0, delay_ns: 0, body });
                    made += 1;
                }
                beats.push(Beat { at_ns: t, acts });
                // next gap: smaller than, equal to, larger than the transmission time of the last message
                let tx = busy_ns(last_len, bitrate);
                let gap = match rng.below(6) {
                    0 => tx,                                   // exactly when the channel becomes idle
                    1 => tx / 2,
                    2 => tx.saturating_sub(1),
                    3 => tx + 1,
                    4 => tx * (1 + rng.below(4)) + rng.below(tx.max(2)),
                    _ => rng.below(tx.saturating_mul(3).max(1000)),
                };
                slowest_gap = slowest_gap.max(tx);
                t += gap.max(if tx == 0 { rng.below(2000) } else { 0 });
            }
            // now and then a window of many packets from one handler that first re-arms its timer
            if rng.chance(1, 10) {
                let n = 34 + rng.usize(30);
                let body = rng.below(6) as u8;
                beats.push(Beat { at_ns: t + rng.below(1000), acts: (0..n).map(|_| Act::Send { gate: 0, delay_ns: 0, body }).collect() });
                beats.push(Beat { at_ns: t + 1_000_000 + rng.below(1000) * 1000, acts: vec![Act::Send { gate: 0, delay_ns: 0, body: 0 }] });
                prog.modules[mi].chained = true;
            } else {
                prog.modules[mi].chained = rng.chance(1, 2);
            }
            prog.modules[mi].beats = beats;
        }
    }
    // the sending module may go down while its channel still has a backlog: the backlog is accounted for all the same
    if rng.chance(1, 10) {
        let v = rng.usize(prog.modules.len());
        if let Some(last) = prog.modules[v].beats.last().map(|b| b.at_ns) {
            let at = rng.below(last + 1);
            let restart = if rng.chance(1, 2) { -1 } else { rng.below(last + 1000) as i64 };
            prog.modules[v].beats.push(Beat { at_ns: at, acts: vec![Act::Shutdown { restart, at: false }] });
            prog.modules[v].beats.sort_by_key(|b| b.at_ns);
        }
    }
    // a handler may panic right after it handed packets to the channel (caught by the module's stereotype): what the
    // channel accepted, put on the wire or queued before the panic is accounted for all the same
    if rng.chance(1, 8) {
        let v = rng.usize(prog.modules.len());
        let nb = prog.modules[v].beats.len();
        if nb > 0 {
            let bi = rng.usize(nb);
            prog.modules[v].beats[bi].acts.push(Act::Panic);
            prog.modules[v].catching = true;
        }
    }
    prog.order = (0..prog.modules.len() as u32).collect();
    cq(rng, &mut prog, slowest_gap);
    if prog.t_ns == 0 && slowest_gap > SEC {
        prog.n = 64;
        prog.t_ns = slowest_gap / 4;
    }
    prog
}

// ---------------------------------------------------------------- C12

pub fn gen_c12(rng: &mut Rng, tier: Tier) -> NetProgram {
    let max_mods = if tier == Tier::Thorough { 40 } else { 24 };
    let nmod = 1 + rng.small(max_mods - 1) as usize;
    let names = ["a", "ab", "abc", "a1", "b", "n", "node", "nod", "x", "a-b", "gebäude", "節点", "é"];
    let mut prog = NetProgram { seed: rng.u64(), ..Default::default() };
    let mut depth: Vec<usize> = Vec::new();
    let mut fanout: Vec<usize> = Vec::new();
    for i in 0..nmod {
        let mut parent: i32 = -1;
        if i > 0 && rng.chance(3, 4) {
            let cand = rng.usize(i);
            if depth[cand] < 3 && fanout[cand] < 5 {
                parent = cand as i32;
            }
        }
        let d = if parent < 0 { 0 } else { depth[parent as usize] + 1 };
        depth.push(d);
        fanout.push(0);
        if parent >= 0 {
            fanout[parent as usize] += 1;
        }
        let stages = if rng.chance(1, 2) { 1 } else { 1 + rng.below(4) as u8 };
        let mut spec = ModSpec { name: (*rng.pick(&names)).to_string(), parent, stages, panic_at: 255, ..Default::default() };
        // a module may declare no start-up stage at all: it is never started, but it is torn down like every other
        spec.zero_stages = rng.chance(1, 10);
        spec.scoped_build = d >= 2 && rng.chance(1, 6);
        if rng.chance(1, 2) {
            spec.beats.push(Beat { at_ns: rng.below(10) * SEC, acts: vec![Act::QueryTree] });
        }
        if rng.chance(1, 3) {
            spec.beats.push(Beat { at_ns: 10 * SEC + rng.below(10) * SEC, acts: vec![Act::SelfMsg { delay_ns: rng.below(SEC) }, Act::QueryTree] });
        }
        spec.beats.sort_by_key(|b| b.at_ns);
        // the tree is also looked at from the tear-down callback (relatives that were torn down before are still there)
        if rng.chance(1, 3) {
            spec.end_acts.push(Act::QueryTree);
        }
        prog.modules.push(spec);
    }
    let mut order: Vec<u32> = (0..nmod as u32).collect();
    if rng.chance(3, 4) {
        rng.shuffle(&mut order);
    }
    prog.order = order;
    for _ in 0..rng.small(2) {
        prog.bad_nodes.push(BadNode { pos: rng.below(nmod as u64 + 1) as u32, kind: rng.below(2) as u8, of: rng.below(nmod as u64) as u32 });
    }
    // a module may shut itself down during its first start-up stage: its later stages are still declared stages
    if rng.chance(1, 8) {
        let v = rng.usize(nmod);
        // (for good, or with a restart - also one that is due at once: it runs when the start-up of the simulation is over)
        let restart = *rng.pick(&[-1i64, -1, 0, 0, 250_000_000]);
        prog.modules[v].start_acts = vec![Act::Shutdown { restart, at: rng.chance(1, 2) }];
    }
    // the application inside the simulation may itself report an error at the end: the modules are torn down all the same
    prog.inner_end_err = rng.chance(1, 15);
    // an ordinary handler panic somewhere: tear-down still happens once for every module
    if nmod >= 2 && rng.chance(1, 8) {
        let v = rng.usize(nmod);
        prog.modules[v].beats.push(Beat { at_ns: 5 * SEC, acts: vec![Act::Panic] });
        prog.modules[v].beats.sort_by_key(|b| b.at_ns);
        prog.modules[v].catching = rng.chance(1, 2);
    }
    // tear-down of one module may fail: every other module must still be torn down exactly once
    if nmod >= 2 && rng.chance(1, 5) {
        let v = rng.usize(nmod);
        if rng.chance(1, 2) {
            prog.modules[v].end_err = true;
        } else {
            prog.modules[v].panic_at = 200;
            prog.modules[v].catching = rng.chance(1, 2);
        }
    }
    // the run may be stopped by a limit with events still pending: tear-down happens all the same
    if rng.chance(1, 6) {
        if rng.chance(1, 2) {
            prog.max_events = 1 + rng.below(12);
        } else {
            prog.max_time_ns = rng.below(20) * SEC + 1;
        }
    }
    // a little ordinary traffic so that "after the last event" means something
    if nmod >= 2 && rng.chance(2, 3) {
        let a = rng.usize(nmod);
        let mut b = rng.usize(nmod);
        if a == b {
            b = (a + 1) % nmod;
        }
        prog.modules[a].gates.push(("g".into(), 1));
        prog.modules[b].gates.push(("g".into(), 1));
        prog.links.push(Link { am: a as u32, ag: 0, bm: b as u32, bg: 0, flip: rng.chance(1, 2), chan: None });
        prog.modules[a].beats.push(Beat { at_ns: 30 * SEC, acts: vec![Act::Send { gate: 0, delay_ns: 0, body: 1 }] });
        prog.modules[a].beats.sort_by_key(|b| b.at_ns);
    }
    // the application that a fault-free run hands back may be given to a second runtime: a second, complete life cycle
    let faults = prog.inner_end_err
        || prog.modules.iter().any(|m| {
            m.end_err || m.panic_at != 255 || !m.start_acts.is_empty() || m.beats.iter().any(|b| b.acts.iter().any(|a| matches!(a, Act::Panic | Act::Shutdown { .. })))
        });
    prog.rerun = rng.chance(1, 5) && !faults;
    prog
}

// ---------------------------------------------------------------- C14

fn gen_pe(rng: &mut Rng, allow_send: bool) -> PeSpec {
    PeSpec {
        mode: rng.weighted(&[3, 2, 2]) as u8,
        m: 1 + rng.below(4) as u32,
        r: rng.below(4) as u32,
        send_hook: if allow_send && rng.chance(1, 5) { 1 + rng.below(3) as u8 } else { 0 },
        gate: rng.below(4) as u32,
    }
}

pub fn gen_c14(rng: &mut Rng, _tier: Tier) -> NetProgram {
    let nmod = 2 + rng.small(3) as usize;
    let mut prog = NetProgram { seed: rng.u64(), ..Default::default() };
    for _ in 0..rng.small(3) {
        prog.gstack.push(gen_pe(rng, true));
    }
    prog.gstack_via_set = rng.chance(1, 2);
    for i in 0..nmod {
        let mut spec = ModSpec { name: format!("m{i}"), parent: -1, stages: 1 + rng.small(2) as u8, panic_at: 255, ..Default::default() };
        for _ in 0..rng.small(3) {
            spec.pes.push(gen_pe(rng, true));
        }
        // an element may request the shutdown of its module while it passes the message on
        if rng.chance(1, 8) {
            let at = rng.usize(spec.pes.len() + 1);
            spec.pes.insert(at, PeSpec { mode: 5, m: 1 + rng.below(3) as u32, r: rng.below(3) as u32, send_hook: 0, gate: rng.below(3) as u32 });
        }
        spec.pes_prepend = rng.chance(1, 2);
        spec.gates = vec![("p".into(), 2)];
        // emissions from the start-up callback (also the one of a restart)
        if rng.chance(1, 3) {
            spec.start_acts = (0..1 + rng.small(2)).map(|_| Act::Send { gate: rng.below(2) as u32, delay_ns: 0, body: 0 }).collect();
        }
        prog.modules.push(spec);
    }
    prog.order = (0..nmod as u32).collect();
    // ring-ish wiring over channel-free links: m_i.p[1] <-> m_{i+1}.p[0]
    for i in 0..nmod {
        let j = (i + 1) % nmod;
        if i == j || (nmod == 2 && i == 1) {
            continue;
        }
        prog.links.push(Link { am: i as u32, ag: 1, bm: j as u32, bg: 0, flip: rng.chance(1, 2), chan: None });
    }
    for i in 0..nmod {
        let nbeats = 1 + rng.small(5) as usize;
        let mut t = rng.below(3) * SEC;
        for _ in 0..nbeats {
            let mut acts = Vec::new();
            for _ in 0..1 + rng.small(3) {
                acts.push(Act::Send { gate: rng.below(2) as u32, delay_ns: if rng.chance(1, 5) { rng.below(SEC) } else { 0 }, body: rng.below(3) as u8 });
            }
            if rng.chance(1, 8) {
                // (now and then for good: the tear-down at the end then meets a module that is still down)
                acts.push(Act::Shutdown { restart: if rng.chance(1, 5) { -1 } else { (rng.below(3) * SEC) as i64 }, at: rng.chance(1, 2) });
            }
            prog.modules[i].beats.push(Beat { at_ns: t, acts });
            t += if rng.chance(1, 3) { 0 } else { rng.below(2 * SEC) };
        }
        prog.modules[i].chained = rng.chance(1, 3);
        // timer wake-ups are module events too (brackets without a message)
        if rng.chance(1, 2) {
            prog.modules[i].tasks = crate::asy::gen_tasks_c13(rng);
        }
        // a joined task that is still pending at the end makes tear-down return an error: the bracket must still close
        if rng.chance(1, 8) {
            prog.modules[i].tasks.push(crate::asy::TaskSpec { local: false, join: 1, steps: vec![crate::asy::AStep::Wait] });
        }
        // a panic that the module's stereotype catches: the bracket of that event must still be closed
        if rng.chance(1, 12) && !prog.modules[i].beats.is_empty() {
            prog.modules[i].catching = true;
            let bi = rng.usize(prog.modules[i].beats.len());
            // (now and then the handler declares its panics as caught only in the very event in which it panics)
            if rng.chance(1, 3) {
                prog.modules[i].catching = false;
                prog.modules[i].beats[bi].acts.push(Act::SetCatching { v: true });
            }
            prog.modules[i].beats[bi].acts.push(Act::Panic);
        }
        // now and then a large burst of same-instant emissions from one handler
        if rng.chance(1, 10) {
            let g = rng.below(2) as u32;
            let n = 21 + rng.usize(40);
            let acts: Vec<Act> = (0..n).map(|_| Act::Send { gate: g, delay_ns: rng.below(3) * 1_000_000, body: 0 }).collect();
            prog.modules[i].beats.push(Beat { at_ns: t + SEC, acts });
        }
    }
    prog
}

// ---------------------------------------------------------------- C04

pub fn gen_c04(rng: &mut Rng, tier: Tier) -> NetProgram {
    let nmod = 2 + rng.small(6) as usize;
    // "the same seed" includes the edge values of the seed type
    let seed = if rng.chance(1, 8) { *rng.pick(&[0u64, 0, 1, u64::MAX, 1 << 63, 0xffff_ffff, 1 << 32]) } else { rng.u64() };
    let mut prog = NetProgram { seed, ..Default::default() };
    for i in 0..nmod {
        prog.modules.push(ModSpec { name: format!("m{i}"), parent: if i > 0 && rng.chance(1, 4) { rng.below(i as u64) as i32 } else { -1 }, stages: 1 + rng.small(2) as u8, gates: vec![("p".into(), 3)], panic_at: 255, ..Default::default() });
    }
    prog.order = (0..nmod as u32).collect();
    rng.shuffle(&mut prog.order);
    let nlinks = 1 + rng.small(2 * nmod as u64) as usize;
    for _ in 0..nlinks {
        let a = rng.usize(nmod);
        let b = rng.usize(nmod);
        let chan = if rng.chance(3, 4) {
            Some(Chan {
                bitrate: *rng.pick(&[0u64, 10_000, 1_000_000]),
                latency_ns: *rng.pick(&[0u64, 1_000_000, 50_000_000]),
                jitter_ns: *rng.pick(&[0u64, 1_000, 1_000_000, 20_000_000]),
                queue: *rng.pick(&[-2i64, -1, 500]),
            })
        } else {
            None
        };
        prog.links.push(Link { am: a as u32, ag: rng.below(3) as u32, bm: b as u32, bg: rng.below(3) as u32, flip: rng.chance(1, 2), chan });
    }
    let max_beats = if tier == Tier::Thorough { 20 } else { 10 };
    for i in 0..nmod {
        let nbeats = rng.small(max_beats) as usize;
        let mut t = rng.below(100) * 1_000_000;
        for _ in 0..nbeats {
            let mut acts = Vec::new();
            for _ in 0..1 + rng.small(3) {
                acts.push(match rng.below(4) {
                    0 => Act::Random,
                    _ => Act::Send { gate: rng.below(3) as u32, delay_ns: if rng.chance(1, 4) { rng.below(10_000_000) } else { 0 }, body: rng.below(6) as u8 },
                });
            }
            // the global view of the simulation (globals(), parent / child handles) is part of what a model observes
            if rng.chance(1, 6) {
                acts.push(Act::QueryTree);
            }
            // ... and so is the topology view with the routes it computes
            if rng.chance(1, 8) {
                acts.push(Act::QueryTopology);
            }
            prog.modules[i].beats.push(Beat { at_ns: t, acts });
            t += if rng.chance(1, 4) { 0 } else { rng.below(30_000_000) };
        }
        prog.modules[i].chained = rng.chance(1, 2);
        if rng.chance(1, 3) {
            prog.modules[i].rx.push(RxRule { nth: 1 + rng.below(4) as u32, act: Act::Random });
        }
        prog.modules[i].tasks = crate::asy::gen_tasks_c04(rng);
    }
    if rng.chance(1, 40) {
        prog.intruder = Some((rng.below(64) as u32, rng.below(4) as u8));
    }
    prog.share_channels = rng.chance(1, 3);
    if prog.share_channels {
        // few distinct metrics, so that several links really share one object
        let menu = [
            Chan { bitrate: 1_000_000, latency_ns: 1_000_000, jitter_ns: 0, queue: -1 },
            Chan { bitrate: 10_000, latency_ns: 0, jitter_ns: 1_000_000, queue: -2 },
        ];
        for l in &mut prog.links {
            if l.chan.is_some() {
                l.chan = Some(rng.pick(&menu).clone());
            }
        }
    }
    if rng.chance(1, 3) {
        prog.n = *rng.pick(&[1usize, 3, 64, 1028]);
        prog.t_ns = *rng.pick(&[1_000_000u64, 2_500_000, 100_000_000]);
    }
    // modules may emit from at_sim_end: that must not reach any later simulation
    if rng.chance(1, 3) {
        let v = rng.usize(nmod);
        prog.modules[v].end_acts = vec![if rng.chance(1, 2) { Act::SelfMsg { delay_ns: rng.below(20) * 1_000_000 } } else { Act::Send { gate: rng.below(3) as u32, delay_ns: rng.below(2) * 5_000_000, body: 1 } }];
    }
    // a module that shuts down and restarts gets a fresh tokio runtime (and respawns its tasks)
    if rng.chance(1, 3) {
        let v = rng.usize(nmod);
        let restart = (rng.below(40) * 1_000_000) as i64;
        let at = rng.below(100) * 1_000_000;
        prog.modules[v].beats.push(Beat { at_ns: at, acts: vec![Act::Shutdown { restart, at: rng.chance(1, 2) }] });
        prog.modules[v].beats.sort_by_key(|b| b.at_ns);
        if prog.modules[v].tasks.is_empty() {
            prog.modules[v].tasks = crate::asy::gen_tasks_c04(rng);
        }
    }
    // the application an error-free run hands back may be run a second time (new runtime, same seed): both lives are
    // part of the history that has to be reproducible
    prog.rerun = rng.chance(1, 6);
    prog
}

// ---------------------------------------------------------------- C03 (net level): bursts of same-instant emissions

/// C02 at the net layer: the channel-free C03 scenarios (every delivery time is predictable) with attempts to emit
/// messages for past instants sprinkled over the handlers.
pub fn gen_c02_net(rng: &mut Rng, tier: Tier) -> NetProgram {
    let mut prog = gen_c03_net(rng, tier);
    let nmod = prog.modules.len();
    for _ in 0..1 + rng.small(4) {
        let v = rng.usize(nmod);
        let nb = prog.modules[v].beats.len();
        if nb == 0 {
            continue;
        }
        let bi = rng.usize(nb);
        let na = prog.modules[v].beats[bi].acts.len();
        let pos = rng.usize(na + 1);
        let back_ns = match rng.below(4) {
            0 => 1,
            1 => 1 + rng.below(1_000),
            2 => 1_000_000_000 * (1 + rng.below(3)),
            _ => 1 + rng.below(3_000_000_000),
        };
        prog.modules[v].beats[bi].acts.insert(pos, Act::SendPast { gate: rng.below(3) as u32, back_ns, mode: rng.below(2) as u8 });
    }
    prog
}

pub fn gen_c03_net(rng: &mut Rng, tier: Tier) -> NetProgram {
    let nmod = 1 + rng.small(3) as usize;
    let mut prog = NetProgram { seed: rng.u64(), ..Default::default() };
    for i in 0..nmod {
        prog.modules.push(ModSpec { name: format!("m{i}"), parent: -1, stages: 1, gates: vec![("p".into(), 2), ("solo".into(), 1)], panic_at: 255, ..Default::default() });
    }
    prog.order = (0..nmod as u32).collect();
    for i in 0..nmod {
        let j = (i + 1) % nmod;
        if i != j && !(nmod == 2 && i == 1) {
            prog.links.push(Link { am: i as u32, ag: 1, bm: j as u32, bg: 0, flip: rng.chance(1, 2), chan: None });
        }
    }
    // a small menu of delays so that many emissions land on the same instants
    let unit = *rng.pick(&[1u64, 1_000, 2_500_000, 1_000_000_000]);
    let menu: Vec<u64> = (0..1 + rng.below(4)).map(|k| k * unit).collect();
    let max_burst = if tier == Tier::Thorough { 160 } else { 100 };
    for i in 0..nmod {
        let nbeats = 1 + rng.small(4) as usize;
        let mut t = *rng.pick(&menu);
        for _ in 0..nbeats {
            let burst = if rng.chance(1, 6) { 20 + rng.usize(max_burst - 20) } else { 1 + rng.small(12) as usize };
            let mut acts = Vec::new();
            for _ in 0..burst {
                let d = *rng.pick(&menu);
                acts.push(if rng.chance(1, 2) { Act::SelfMsg { delay_ns: d } } else { Act::Send { gate: rng.below(3) as u32, delay_ns: d, body: 0 } });
            }
            prog.modules[i].beats.push(Beat { at_ns: t, acts });
            t += *rng.pick(&menu);
        }
        prog.modules[i].chained = rng.chance(1, 2);
    }
    // a handler may shut its module down (for good) in the middle of its emissions
    if rng.chance(1, 6) {
        let v = rng.usize(nmod);
        let nb = prog.modules[v].beats.len();
        if nb > 0 {
            let bi = rng.usize(nb);
            let na = prog.modules[v].beats[bi].acts.len();
            let pos = rng.usize(na + 1);
            prog.modules[v].beats[bi].acts.insert(pos, Act::Shutdown { restart: -1, at: false });
        }
    }
    // a handler may panic after it emitted (caught by the module's stereotype): what it emitted keeps its place in the
    // scheduling order
    if rng.chance(1, 6) {
        let v = rng.usize(nmod);
        let nb = prog.modules[v].beats.len();
        if nb > 0 {
            let bi = rng.usize(nb);
            let na = prog.modules[v].beats[bi].acts.len();
            let pos = 1 + rng.usize(na.max(1));
            prog.modules[v].beats[bi].acts.insert(pos.min(na), Act::Panic);
            prog.modules[v].catching = true;
        }
    }
    prog
}

// ---------------------------------------------------------------- fault scenarios: common base

/// 2..6 modules wired with direct links (each module owns only endpoint gates), open-loop traffic on scripted timers
fn base_model(rng: &mut Rng, nmod: usize, max_beats: u64, chan_prob: (u64, u64), bodies: u8) -> NetProgram {
    let mut prog = NetProgram { seed: rng.u64(), ..Default::default() };
    for i in 0..nmod {
        prog.modules.push(ModSpec { name: format!("m{i}"), parent: -1, stages: 1 + rng.small(2) as u8, gates: vec![("p".into(), 4)], panic_at: 255, ..Default::default() });
    }
    prog.order = (0..nmod as u32).collect();
    let mut used: Vec<Vec<bool>> = vec![vec![false; 4]; nmod];
    let nlinks = nmod + rng.small(nmod as u64) as usize;
    for _ in 0..nlinks {
        let a = rng.usize(nmod);
        let mut b = rng.usize(nmod);
        if a == b {
            b = (a + 1) % nmod;
        }
        let (Some(ga), Some(gb)) = (used[a].iter().position(|u| !u), used[b].iter().position(|u| !u)) else { continue };
        if a == b {
            continue;
        }
        used[a][ga] = true;
        used[b][gb] = true;
        let chan = if rng.chance(chan_prob.0, chan_prob.1) {
            Some(Chan { bitrate: *rng.pick(&[0u64, 1_000_000, 100_000_000]), latency_ns: *rng.pick(&[0u64, 1_000_000, 200_000_000]), jitter_ns: 0, queue: -1 })
        } else {
            None
        };
        prog.links.push(Link { am: a as u32, ag: ga as u32, bm: b as u32, bg: gb as u32, flip: rng.chance(1, 2), chan });
    }
    for i in 0..nmod {
        let nb = rng.small(max_beats) as usize;
        let mut t = rng.below(4) * 250_000_000;
        for _ in 0..nb {
            let mut acts = Vec::new();
            for _ in 0..1 + rng.small(2) {
                let g = rng.below(4) as u32;
                acts.push(Act::Send { gate: g, delay_ns: if rng.chance(1, 4) { rng.below(4) * 250_000_000 } else { 0 }, body: if bodies <= 1 { 1 } else { rng.below(u64::from(bodies)) as u8 } });
            }
            prog.modules[i].beats.push(Beat { at_ns: t, acts });
            t += rng.below(5) * 250_000_000 + if rng.chance(1, 3) { 0 } else { SEC };
        }
        prog.modules[i].chained = rng.chance(1, 3);
    }
    prog
}

// ---------------------------------------------------------------- C09

pub fn gen_c09(rng: &mut Rng, tier: Tier) -> NetProgram {
    let nmod = 2 + rng.small(4) as usize;
    let mut prog = base_model(rng, nmod, if tier == Tier::Thorough { 14 } else { 8 }, (1, 2), 1);
    // a transit module now and then: m0.p[3] -- mid.t[0] , mid.t[1] -- m1.p[3] (messages pass through gates owned by `mid`)
    if rng.chance(1, 2) && nmod >= 2 {
        let mid = prog.modules.len();
        prog.modules.push(ModSpec { name: "mid".into(), parent: -1, stages: 1, gates: vec![("t".into(), 2)], panic_at: 255, ..Default::default() });
        prog.order.push(mid as u32);
        let a = 0u32;
        let b = 1u32;
        // use fresh gates so the chain is exactly a - mid - b
        prog.modules[0].gates.push(("via".into(), 1));
        prog.modules[1].gates.push(("via".into(), 1));
        let ch = |rng: &mut Rng| if rng.chance(1, 2) { Some(Chan { bitrate: 0, latency_ns: *rng.pick(&[1_000_000u64, 300_000_000]), jitter_ns: 0, queue: -1 }) } else { None };
        let c1 = ch(rng);
        let c2 = ch(rng);
        prog.links.push(Link { am: a, ag: 4, bm: mid as u32, bg: 0, flip: rng.chance(1, 2), chan: c1 });
        prog.links.push(Link { am: mid as u32, ag: 1, bm: b, bg: 4, flip: rng.chance(1, 2), chan: c2 });
        for m in [0usize, 1] {
            for bt in &mut prog.modules[m].beats {
                if rng.chance(1, 2) {
                    bt.acts.push(Act::Send { gate: 4, delay_ns: 0, body: 1 });
                }
            }
        }
    }
    for l in &mut prog.links {
        if let Some(c) = &mut l.chan {
            c.bitrate = 0; // latency-only: what a busy channel does is C07's subject
        }
    }
    // faults: shutdown / shutdown-and-restart, attached to a scripted timer or to the n-th receive
    let nvictims = 1 + rng.small(2) as usize;
    let total = prog.modules.len();
    for _ in 0..nvictims {
        let v = rng.usize(total);
        let restart: i64 = match rng.below(5) {
            0 => -1,
            1 => 0,
            2 => (rng.below(4) * 250_000_000) as i64,
            _ => (rng.below(6) * SEC / 2) as i64 + 1,
        };
        let act = Act::Shutdown { restart, at: rng.chance(1, 2) };
        if rng.chance(2, 3) && !prog.modules[v].beats.is_empty() {
            let bi = rng.usize(prog.modules[v].beats.len());
            let pos = rng.usize(prog.modules[v].beats[bi].acts.len() + 1);
            prog.modules[v].beats[bi].acts.insert(pos, act);
        } else if rng.chance(1, 2) {
            prog.modules[v].rx.push(RxRule { nth: 1 + rng.below(4) as u32, act });
        } else {
            let at = rng.below(12) * 250_000_000;
            prog.modules[v].beats.push(Beat { at_ns: at, acts: vec![act] });
            prog.modules[v].beats.sort_by_key(|b| b.at_ns);
        }
    }
    // crash-and-reboot: a handler requests a restart and then panics in the same event
    if rng.chance(1, 8) {
        let v = rng.usize(total);
        if let Some(b) = prog.modules[v].beats.iter_mut().find(|b| b.acts.iter().any(|a| matches!(a, Act::Shutdown { restart, .. } if *restart >= 0))) {
            b.acts.push(Act::Panic);
            prog.modules[v].crash_reboot = true;
        }
    }
    for m in &mut prog.modules {
        m.tasks = crate::asy::gen_tasks_c09(rng);
        // user reset code may itself fail: the old incarnation must be gone all the same
        if rng.chance(1, 10) {
            m.reset_panics = true;
        }
        // start-up code that sends: it runs again at every restart
        if rng.chance(1, 3) {
            m.start_acts = (0..1 + rng.small(2)).map(|_| Act::Send { gate: rng.below(5) as u32, delay_ns: if rng.chance(1, 4) { 250_000_000 } else { 0 }, body: 1 }).collect();
        }
        // a module without any start-up stage that is shut down and restarted by the n-th message it receives: the restart
        // calls no start-up stage either
        if rng.chance(1, 15) && m.rx.is_empty() {
            m.zero_stages = true;
            m.beats.clear();
            m.tasks.clear();
            m.start_acts.clear();
            m.rx.push(RxRule { nth: 1 + rng.below(3) as u32, act: Act::Shutdown { restart: (rng.below(4) * 250_000_000) as i64, at: false } });
        }
        // a module that "boots late": it requests its shutdown (with restart) from the start-up callback itself
        if rng.chance(1, 12) {
            m.start_acts.push(Act::Shutdown { restart: (1 + rng.below(4)) as i64 * 250_000_000, at: false });
        }
        // processing elements that merely observe: they are part of the module's message handling, so they see nothing
        // while the module is down either
        if rng.chance(1, 4) {
            for _ in 0..1 + rng.small(2) {
                m.pes.push(PeSpec { mode: 0, m: 1, r: 0, send_hook: 0, gate: 0 });
            }
        }
    }
    // a real pass-through: the two gates of the transit module are connected to each other, so the chain is
    // a.via - mid.t[0] - mid.t[1] - b.via and messages of a and b cross `mid` without being handled there
    if let Some(mid) = prog.modules.iter().position(|m| m.name == "mid") {
        if rng.chance(1, 2) {
            let chan = if rng.chance(1, 3) { Some(Chan { bitrate: 0, latency_ns: 1_000_000, jitter_ns: 0, queue: -1 }) } else { None };
            prog.links.push(Link { am: mid as u32, ag: 0, bm: mid as u32, bg: 1, flip: rng.chance(1, 2), chan });
        }
    }
    // modules that differ only in where they live: every module moves into a box of its own and all get the same name
    // (box0.node, box1.node, ...): whatever is remembered about "the module" must not go by its local name
    if rng.chance(1, 4) {
        // (a parent has to precede its children in the module list: the boxes go to the front, all indices move up by n)
        let n = prog.modules.len();
        let mut all: Vec<ModSpec> = (0..n).map(|i| ModSpec { name: format!("box{i}"), parent: -1, stages: 1, panic_at: 255, ..Default::default() }).collect();
        for (i, mut m) in std::mem::take(&mut prog.modules).into_iter().enumerate() {
            m.parent = i as i32;
            m.name = "node".into();
            all.push(m);
        }
        prog.modules = all;
        for l in &mut prog.links {
            l.am += n as u32;
            l.bm += n as u32;
        }
        let old: Vec<u32> = prog.order.iter().map(|x| x + n as u32).collect();
        prog.order = (0..n as u32).chain(old).collect();
    }
    prog
}

// ---------------------------------------------------------------- C13

/// A sender and a joined des `AsyncFn` block whose handler asks for a restart of its node and then fails: the failure
/// is a panic of the handler task, and the run must report it although the node was restarted afterwards.
fn gen_c13_block(rng: &mut Rng) -> NetProgram {
    let mut prog = NetProgram { seed: rng.u64(), blocks: vec![7], ..Default::default() };
    let mut spec = ModSpec { name: "m0".into(), parent: -1, stages: 1, gates: vec![("o".into(), 1)], panic_at: 255, ..Default::default() };
    let mut t = rng.below(4) * 250_000_000;
    for _ in 0..1 + rng.small(4) {
        spec.beats.push(Beat { at_ns: t, acts: vec![Act::Send { gate: 0, delay_ns: 0, body: 0 }] });
        t += 250_000_000 * (1 + rng.below(6));
    }
    spec.chained = rng.chance(1, 2);
    prog.modules.push(spec);
    prog.order = vec![0];
    prog
}

pub fn gen_c13(rng: &mut Rng, tier: Tier) -> NetProgram {
    if rng.chance(1, 25) {
        return gen_c13_block(rng);
    }
    let nmod = 2 + rng.small(4) as usize;
    let mut prog = base_model(rng, nmod, if tier == Tier::Thorough { 14 } else { 8 }, (1, 3), 3);
    let nvictims = 1 + rng.small(2) as usize;
    for _ in 0..nvictims {
        let v = rng.usize(nmod);
        prog.modules[v].catching = rng.chance(1, 2);
        match rng.below(6) {
            0 => prog.modules[v].panic_at = rng.below(u64::from(prog.modules[v].stages)) as u8,
            1 => prog.modules[v].panic_at = 200,
            2 | 3 if !prog.modules[v].beats.is_empty() => {
                let bi = rng.usize(prog.modules[v].beats.len());
                let pos = rng.usize(prog.modules[v].beats[bi].acts.len() + 1);
                prog.modules[v].beats[bi].acts.insert(pos, Act::Panic);
                // the callback may change the module's stereotype right before it panics: what counts is the stereotype
                // at the time of the panic
                if rng.chance(1, 4) {
                    let nv = !prog.modules[v].catching;
                    prog.modules[v].beats[bi].acts.insert(pos, Act::SetCatching { v: nv });
                }
            }
            _ => prog.modules[v].rx.push(RxRule { nth: 1 + rng.below(4) as u32, act: Act::Panic }),
        }
    }
    // a module that panics in a start-up stage of a *restart* (not of the initial start)
    if rng.chance(1, 6) {
        let v = rng.usize(nmod);
        if prog.modules[v].panic_at == 255 && !prog.modules[v].beats.is_empty() {
            let stage = rng.below(u64::from(prog.modules[v].stages.clamp(1, 4))) as u8;
            prog.modules[v].panic_at = stage;
            prog.modules[v].panic_inc = 1;
            prog.modules[v].catching = rng.chance(1, 3);
            let bi = rng.usize(prog.modules[v].beats.len());
            prog.modules[v].beats[bi].acts.push(Act::Shutdown { restart: (rng.below(4) * 250_000_000) as i64, at: rng.chance(1, 2) });
        }
    }
    // a victim's delayed sends would be dropped at their exit time (the owner of the sending gate is inactive then),
    // which "merely fallen silent" does not define: victims send immediately only
    for m in &mut prog.modules {
        let is_victim = m.panic_at != 255 || m.rx.iter().any(|r| matches!(r.act, Act::Panic)) || m.beats.iter().any(|b| b.acts.iter().any(|a| matches!(a, Act::Panic)));
        if is_victim {
            for b in &mut m.beats {
                for a in &mut b.acts {
                    if let Act::Send { delay_ns, .. } = a {
                        *delay_ns = 0;
                    }
                }
            }
        }
    }
    // modules draw from the seeded random number generator of the simulation: a fault elsewhere must not shift the
    // stream the healthy modules see
    if rng.chance(1, 2) {
        for m in &mut prog.modules {
            for b in &mut m.beats {
                if rng.chance(1, 3) {
                    b.acts.push(Act::Random);
                }
            }
            if rng.chance(1, 4) && m.rx.is_empty() {
                m.rx.push(RxRule { nth: 1 + rng.below(4) as u32, act: Act::Random });
            }
        }
    }
    for m in &mut prog.modules {
        m.tasks = crate::asy::gen_tasks_c13(rng);
        // handlers wake the task that sends (also the handler that panics right afterwards: the task it woke does not
        // get to run any more, exactly as if the module had fallen silent at that point)
        if m.tasks.first().map_or(false, |t| t.steps.iter().any(|s| matches!(s, crate::asy::AStep::Emit { .. }))) {
            for b in &mut m.beats {
                if rng.chance(1, 2) {
                    b.acts.insert(0, Act::NotifyTask { to: 0 });
                }
            }
        }
    }
    // a joined task that panics (contained by tokio, surfaced as a JoinError of that module at the end)
    if rng.chance(1, 3) {
        let v = rng.usize(nmod);
        let t = crate::asy::panicking_task(rng);
        // a still-pending try_join task registered before the panicking one must not hide it
        if rng.chance(1, 2) {
            prog.modules[v].tasks.push(crate::asy::TaskSpec { local: rng.chance(1, 3), join: 2, steps: vec![crate::asy::AStep::Wait] });
        }
        prog.modules[v].tasks.push(t);
        // the module may be shut down / restarted after its task panicked: the panic must still be reported
        if rng.chance(1, 3) {
            let restart = if rng.chance(1, 2) { -1 } else { (rng.below(4) * 250_000_000) as i64 };
            prog.modules[v].beats.push(Beat { at_ns: 2 * SEC + rng.below(8) * 250_000_000, acts: vec![Act::Shutdown { restart, at: false }] });
            prog.modules[v].beats.sort_by_key(|b| b.at_ns);
        }
    }
    prog
}

// ---------------------------------------------------------------- C16

pub fn gen_c16(rng: &mut Rng, tier: Tier) -> NetProgram {
    let nmod = 2 + rng.small(3) as usize;
    // bulk transfers (one message of 0.5 .. 2 GiB, declared with Body::new_with_len) only over fast links
    let bulk = rng.chance(1, 6);
    let kinds = if bulk { crate::bodies::N_BODIES } else { crate::bodies::N_BODIES - 1 };
    let mut prog = base_model(rng, nmod, if tier == Tier::Thorough { 16 } else { 10 }, (2, 3), kinds);
    // lossy channels: busy Drop, byte-bounded queues
    for l in &mut prog.links {
        if let Some(c) = &mut l.chan {
            c.bitrate = if bulk { *rng.pick(&[1_000_000_000u64, 10_000_000_000]) } else { *rng.pick(&[10_000u64, 1_000_000, 100_000_000]) };
            c.queue = *rng.pick(&[-2i64, -1, 0, 200, 1200]);
            // jitter delays the arrival, it is not part of the size the channel charges for
            if rng.chance(1, 4) {
                c.jitter_ns = *rng.pick(&[1_000u64, 1_000_000, 300_000_000]);
            }
        }
    }
    if bulk {
        prog.n = 64;
        prog.t_ns = 100_000_000;
    }
    for m in &mut prog.modules {
        let n = 1 + rng.small(6) as usize;
        m.rx_ops = (0..n).map(|_| rng.below(10) as u8).collect();
        // bursts, so that busy channels and full queues really lose messages
        for b in &mut m.beats {
            if rng.chance(1, 2) {
                let extra = 1 + rng.small(4) as usize;
                for _ in 0..extra {
                    if let Some(Act::Send { gate, .. }) = b.acts.first().cloned() {
                        b.acts.push(Act::Send { gate, delay_ns: 0, body: rng.below(u64::from(kinds)) as u8 });
                    }
                }
            }
        }
    }
    // consume-mode elements also apply body operations
    if rng.chance(1, 3) {
        prog.gstack.push(PeSpec { mode: 2, m: 1 + rng.below(3) as u32, r: rng.below(3) as u32, send_hook: 0, gate: 0 });
    }
    // faults that lose messages elsewhere: shutdown of a receiver, a panic while holding a message, a limit stop
    match rng.below(6) {
        0 => {
            let v = rng.usize(nmod);
            prog.modules[v].rx.push(RxRule { nth: 1 + rng.below(3) as u32, act: Act::Shutdown { restart: if rng.chance(1, 2) { -1 } else { (rng.below(4) * SEC / 2) as i64 }, at: false } });
        }
        1 => {
            let v = rng.usize(nmod);
            prog.modules[v].rx.push(RxRule { nth: 1 + rng.below(3) as u32, act: Act::Panic });
            prog.modules[v].catching = rng.chance(1, 2);
        }
        2 | 3 => prog.max_events = 1 + rng.below(60),
        _ => {}
    }
    prog.drop_order = rng.below(3) as u8;
    prog
}

// ---------------------------------------------------------------- C20

pub fn gen_c20(rng: &mut Rng, tier: Tier) -> NetProgram {
    let nmod = 1 + rng.small(5) as usize;
    let mut prog = base_model(rng, nmod, if tier == Tier::Thorough { 12 } else { 7 }, (2, 3), 6);
    // parent/child trees
    for i in 1..nmod {
        if rng.chance(1, 2) {
            prog.modules[i].parent = rng.below(i as u64) as i32;
        }
    }
    // backlog: slow channels with queues
    for l in &mut prog.links {
        if let Some(c) = &mut l.chan {
            if rng.chance(1, 2) {
                c.bitrate = *rng.pick(&[1_000u64, 10_000, 1_000_000]);
                c.queue = *rng.pick(&[-1i64, -1, 5000, -2]);
            }
        }
    }
    for m in &mut prog.modules {
        for b in &mut m.beats {
            if rng.chance(1, 2) {
                if let Some(Act::Send { gate, .. }) = b.acts.first().cloned() {
                    for _ in 0..1 + rng.small(3) {
                        b.acts.push(Act::Send { gate, delay_ns: 0, body: 1 + rng.below(5) as u8 });
                    }
                }
            }
        }
    }
    // a chain over one gate per module that the driver closes into a ring (all gates transit) while messages are
    // queued on its first hop
    if nmod >= 3 && rng.chance(1, 3) {
        for m in 0..3 {
            prog.modules[m].gates.push(("ring".into(), 1));
        }
        let slow = Some(Chan { bitrate: 1000, latency_ns: 1000, jitter_ns: 0, queue: -1 });
        prog.links.push(Link { am: 0, ag: 4, bm: 1, bg: 4, flip: rng.chance(1, 2), chan: slow.clone() });
        prog.links.push(Link { am: 1, ag: 4, bm: 2, bg: 4, flip: rng.chance(1, 2), chan: if rng.chance(1, 2) { slow.clone() } else { None } });
        // traffic onto the chain before it is closed: a burst, so that a backlog builds up
        let burst: Vec<Act> = (0..2 + rng.small(3)).map(|_| Act::Send { gate: 4, delay_ns: 0, body: 1 + rng.below(5) as u8 }).collect();
        prog.modules[0].beats.insert(0, Beat { at_ns: 0, acts: burst });
        if rng.chance(2, 3) {
            prog.late_links.push((1_000_000 + rng.below(3) * SEC, Link { am: 2, ag: 4, bm: 0, bg: 4, flip: rng.chance(1, 2), chan: if rng.chance(1, 2) { slow } else { None } }));
        }
    }
    // elements hold tokens too
    for _ in 0..rng.small(2) {
        prog.gstack.push(PeSpec { mode: rng.below(3) as u8, m: 1 + rng.below(3) as u32, r: 0, send_hook: if rng.chance(1, 3) { 1 } else { 0 }, gate: rng.below(4) as u32 });
    }
    if rng.chance(1, 3) {
        let v = rng.usize(nmod);
        prog.modules[v].pes.push(PeSpec::default());
    }
    // an element that panics on some message: the panic is outside the module harness and unwinds out of run()
    if rng.chance(1, 8) {
        let v = rng.usize(nmod);
        prog.modules[v].pes.push(PeSpec { mode: 4, m: 1 + rng.below(4) as u32, r: rng.below(4) as u32, send_hook: 0, gate: 0 });
    }
    // shut-down / restarted modules, modules that panic
    if rng.chance(1, 3) {
        let v = rng.usize(nmod);
        let restart = if rng.chance(1, 2) { -1 } else { (rng.below(4) * SEC / 2) as i64 };
        if let Some(b) = prog.modules[v].beats.first_mut() {
            b.acts.push(Act::Shutdown { restart, at: false });
        }
    }
    if rng.chance(1, 5) {
        let v = rng.usize(nmod);
        prog.modules[v].rx.push(RxRule { nth: 1 + rng.below(3) as u32, act: Act::Panic });
        prog.modules[v].catching = rng.chance(1, 2);
    }
    if rng.chance(1, 4) {
        let v = rng.usize(nmod);
        prog.modules[v].end_acts = vec![if rng.chance(1, 2) { Act::SelfMsg { delay_ns: rng.below(4) * SEC / 4 } } else { Act::Send { gate: rng.below(4) as u32, delay_ns: rng.below(2) * SEC / 4, body: 1 } }];
    }
    // des's own module blocks with pending tasks / captured state
    for _ in 0..rng.small(2) {
        prog.blocks.push(1 + rng.below(4) as u8);
    }
    // user code that looks at the global view of the simulation
    if rng.chance(1, 3) {
        let v = rng.usize(nmod);
        if let Some(b) = prog.modules[v].beats.first_mut() {
            b.acts.insert(0, Act::QueryTree);
        } else {
            prog.modules[v].beats.push(Beat { at_ns: 0, acts: vec![Act::QueryTree] });
        }
    }
    // stopping point
    match rng.below(8) {
        0 => prog.end_mode = 1,
        1 => prog.end_mode = 2,
        2 | 3 => prog.max_events = 1 + rng.below(40),
        4 => prog.max_time_ns = rng.below(8) * SEC / 2 + 1,
        _ => {}
    }
    prog.drop_order = rng.below(3) as u8;
    for m in &mut prog.modules {
        m.tasks = crate::asy::gen_tasks_c20(rng);
    }
    // task state that consults the global view of the simulation when it is dropped
    prog.leases = rng.chance(1, 3);
    // another thread waits for a simulation of its own while this one runs
    if rng.chance(1, 15) {
        prog.intruder = Some((rng.below(64) as u32, 1));
    }
    // messages caught in a closed ring circulate forever: such runs always end by a time limit
    if !prog.late_links.is_empty() {
        prog.end_mode = 0;
        prog.max_events = 0;
        prog.max_time_ns = 3 * SEC + rng.below(20) * SEC;
    }
    // the process may log: a subscriber that accepts every level is installed for the run (and the drop), so that the
    // arguments of every log statement of des are evaluated
    prog.logging = rng.chance(1, 4);
    prog
}
