//! Fault: another thread of the process sets up a simulation of its own while a handler of the running one is active.
//! des serialises simulations with process-wide locks, so the other thread has to block before it touches any global
//! state (clock, random number generator, module context). The handler releases the thread at its k-th call, waits
//! until the thread has started its work and one more millisecond, and carries on.

use std::cell::RefCell;
use std::sync::atomic::{AtomicBool, Ordering};
use std::sync::{mpsc, Arc};
use std::time::{Duration, Instant};

struct Ctl {
    k: usize,
    count: usize,
    go: Option<mpsc::Sender<()>>,
    entered: Arc<AtomicBool>,
}

thread_local! {
    static CTL: RefCell<Option<Ctl>> = const { RefCell::new(None) };
}

/// Called by handlers of the simulation under test.
pub fn hook() {
    CTL.with(|c| {
        let mut c = c.borrow_mut();
        let Some(c) = c.as_mut() else { return };
        c.count += 1;
        if c.count == c.k + 1 {
            if let Some(go) = c.go.take() {
                let _ = go.send(());
                let t0 = Instant::now();
                while !c.entered.load(Ordering::SeqCst) && t0.elapsed() < Duration::from_millis(500) {
                    std::thread::yield_now();
                }
                std::thread::sleep(Duration::from_millis(1));
            }
        }
    });
}

/// Arms the fault for the simulation that is run next on this thread; `body` is what the other thread does once released.
/// Returns the handle of the other thread: join it after `disarm` (it yields `true` if it did its work).
pub fn arm(k: usize, body: impl FnOnce() + Send + 'static) -> std::thread::JoinHandle<bool> {
    let entered = Arc::new(AtomicBool::new(false));
    let (tx, rx) = mpsc::channel::<()>();
    let e2 = entered.clone();
    let h = std::thread::spawn(move || {
        if rx.recv().is_err() {
            return false;
        }
        e2.store(true, Ordering::SeqCst);
        body();
        true
    });
    CTL.with(|c| *c.borrow_mut() = Some(Ctl { k, count: 0, go: Some(tx), entered }));
    h
}

/// Ends the fault window (drops the release channel: a thread that was never released ends without doing anything).
pub fn disarm() {
    CTL.with(|c| *c.borrow_mut() = None);
}
