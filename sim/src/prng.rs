//! SplitMix64 + xoshiro256** written here so that replays never depend on crate versions.

#[derive(Clone, Debug)]
pub struct SplitMix64(pub u64);

impl SplitMix64 {
    pub fn next(&mut self) -> u64 {
        self.0 = self.0.wrapping_add(0x9E37_79B9_7F4A_7C15);
        let mut z = self.0;
        z = (z ^ (z >> 30)).wrapping_mul(0xBF58_476D_1CE4_E5B9);
        z = (z ^ (z >> 27)).wrapping_mul(0x94D0_49BB_1331_11EB);
        z ^ (z >> 31)
    }
}

/// Mixes the base seed with a stream tag and a run index into a per-run seed.
pub fn mix(base: u64, tag: &str, index: u64) -> u64 {
    let mut h = SplitMix64(base ^ 0xD1B5_4A32_D192_ED03);
    let mut acc = h.next();
    for b in tag.bytes() {
        acc = (acc ^ u64::from(b)).wrapping_mul(0x0000_0100_0000_01B3);
        acc ^= SplitMix64(acc).next();
    }
    acc ^= SplitMix64(index.wrapping_mul(0x9E37_79B9_7F4A_7C15) ^ acc).next();
    SplitMix64(acc).next()
}

#[derive(Clone, Debug)]
pub struct Rng {
    s: [u64; 4],
}

impl Rng {
    pub fn new(seed: u64) -> Self {
        let mut sm = SplitMix64(seed);
        let s = [sm.next(), sm.next(), sm.next(), sm.next()];
        Rng { s }
    }

    pub fn u64(&mut self) -> u64 {
        let result = self.s[1].wrapping_mul(5).rotate_left(7).wrapping_mul(9);
        let t = self.s[1] << 17;
        self.s[2] ^= self.s[0];
        self.s[3] ^= self.s[1];
        self.s[1] ^= self.s[2];
        self.s[0] ^= self.s[3];
        self.s[2] ^= t;
        self.s[3] = self.s[3].rotate_left(45);
        result
    }

    /// Uniform in `0..n` (n > 0).
    pub fn below(&mut self, n: u64) -> u64 {
        debug_assert!(n > 0);
        // multiply-shift; bias is irrelevant here
        ((u128::from(self.u64()) * u128::from(n)) >> 64) as u64
    }

    pub fn usize(&mut self, n: usize) -> usize {
        self.below(n as u64) as usize
    }

    /// Uniform in `lo..=hi`.
    pub fn range(&mut self, lo: u64, hi: u64) -> u64 {
        lo + self.below(hi - lo + 1)
    }

    /// True with probability num/den.
    pub fn chance(&mut self, num: u64, den: u64) -> bool {
        self.below(den) < num
    }

    pub fn pick<'a, T>(&mut self, items: &'a [T]) -> &'a T {
        &items[self.usize(items.len())]
    }

    /// Small-biased size: mostly small, sometimes up to `max`.
    pub fn small(&mut self, max: u64) -> u64 {
        if max == 0 {
            return 0;
        }
        let bits = 64 - max.leading_zeros() as u64;
        let b = self.below(bits + 1);
        let cap = if b >= 63 { u64::MAX } else { (1u64 << b).max(1) };
        self.below(cap.min(max) + 1).min(max)
    }

    /// Picks an index according to weights.
    pub fn weighted(&mut self, weights: &[u32]) -> usize {
        let total: u64 = weights.iter().map(|w| u64::from(*w)).sum();
        if total == 0 {
            return 0;
        }
        let mut x = self.below(total);
        for (i, w) in weights.iter().enumerate() {
            let w = u64::from(*w);
            if x < w {
                return i;
            }
            x -= w;
        }
        weights.len() - 1
    }

    pub fn shuffle<T>(&mut self, v: &mut [T]) {
        for i in (1..v.len()).rev() {
            let j = self.usize(i + 1);
            v.swap(i, j);
        }
    }

    pub fn fork(&mut self) -> Rng {
        Rng::new(self.u64())
    }
}
