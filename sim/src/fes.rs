//! Engine `fes`: seeded operation histories on the real `des_cqueue::CQueue`.
//! Serves C01 (order / exactly-once / cancel / len), the queue-level part of C03
//! (exact tie order) and C15 (allocator safety + payload drop ledger).

use crate::common::*;
use crate::prng::Rng;
use des_cqueue::{CQueue, EventHandle, VerifAllocEvent};
use serde::{Deserialize, Serialize};
use std::cell::RefCell;
use std::collections::BTreeMap;
use std::time::Duration;

#[derive(Serialize, Deserialize, Clone, Debug, PartialEq, Eq, Hash)]
pub enum Pat {
    Now,
    Delta,
    InHead,
    Boundary,
    BoundaryM1,
    BoundaryP1,
    Year,
    YearM1,
    YearP1,
    Tie,
    TieAll,
    Far,
    /// a lonely event very far ahead (up to 2e7 buckets): rare, at most one per history
    MegaFar,
    /// an event at `Duration::MAX` ("never"): it can be scheduled, cancelled and dropped with the queue, but no fetch can
    /// reach it (the scan would have to walk ~1e19 s of buckets), so histories never fetch while only such events are left
    Never,
}

/// model time of an event scheduled at `Duration::MAX`
pub const NEVER: u64 = u64::MAX;
/// index of the bucket an event of this model time is filed in
fn bucket_index(time: u64, n: u64, t: u64) -> u64 {
    let year = u128::from(n.max(1)) * u128::from(t.max(1));
    ((to_dur(time).as_nanos() % year) / u128::from(t.max(1))) as u64
}
/// bucket width `u64::MAX` stands for `Duration::MAX`: one bucket (n = 1) that spans the whole time axis, the only
/// parameterisation in which a fetch can reach events scheduled for `Duration::MAX`
pub const WHOLE_AXIS: u64 = u64::MAX;
fn bucket_dur(t: u64) -> Duration {
    if t == WHOLE_AXIS {
        Duration::MAX
    } else {
        Duration::from_nanos(t)
    }
}
fn from_dur(d: Duration) -> u64 {
    if d == Duration::MAX {
        NEVER
    } else {
        d.as_nanos() as u64
    }
}
fn to_dur(time: u64) -> Duration {
    if time == NEVER {
        Duration::MAX
    } else {
        Duration::from_nanos(time)
    }
}

#[derive(Serialize, Deserialize, Clone, Debug, PartialEq, Eq, Hash)]
pub enum Sel {
    Any,
    AtNow,
    Zero,
    Min,
    Max,
    LastOfBucket,
}

#[derive(Serialize, Deserialize, Clone, Debug, PartialEq, Eq, Hash)]
#[serde(tag = "op")]
pub enum FesOp {
    Add { pat: Pat, a: u64 },
    Cancel { sel: Sel, k: u32 },
    CancelFetched { k: u32 },
    Fetch,
    /// fault: an add for a time before the queue time. The queue rejects it with a panic; the caller catches the panic and
    /// carries on - the queue must be exactly as before
    AddPast { a: u64 },
}

#[derive(Serialize, Deserialize, Clone, Debug, PartialEq, Eq, Hash)]
pub struct FesProgram {
    pub n: usize,
    pub t_ns: u64,
    /// 0 = `CQueue::new` (system page size)
    pub page_size: usize,
    pub payload: String,
    pub inv_every: u32,
    pub ops: Vec<FesOp>,
    /// drain the queue at the end; otherwise it is dropped with whatever is pending
    pub drain: bool,
    /// fault: the destructor of the k-th pending payload panics (once) when the queue is dropped (payload "ptok" only)
    #[serde(default)]
    pub drop_panic: Option<u32>,
    /// fault: the queue is dropped while the thread unwinds from a panic of its user
    #[serde(default)]
    pub drop_in_unwind: bool,
    /// fault: the destructor of the payload removed by the k-th cancel of a pending event panics; the user catches the
    /// panic and carries on (payload "ptok" only)
    #[serde(default)]
    pub cancel_panic: Option<u32>,
}

// ---------------------------------------------------------------- payloads

thread_local! {
    static DROPS: RefCell<Vec<u8>> = const { RefCell::new(Vec::new()) };
    static ZST_DROPS: RefCell<u64> = const { RefCell::new(0) };
    static SHADOW: RefCell<Shadow> = RefCell::new(Shadow::default());
}

fn note_drop(id: u64) {
    DROPS.with(|d| {
        let mut d = d.borrow_mut();
        let i = id as usize;
        if i >= d.len() {
            d.resize(i + 1, 0);
        }
        d[i] = d[i].saturating_add(1);
    });
}
fn drops_of(id: u64) -> u8 {
    DROPS.with(|d| d.borrow().get(id as usize).copied().unwrap_or(0))
}

pub trait Payload: Sized + 'static {
    /// how many low bits of the id the payload can carry (0 = none)
    const ID_BITS: u32;
    const COUNTS_DROPS: bool;
    fn make(id: u64) -> Self;
    fn key(&self) -> u64;
    fn intact(&self) -> bool;
}

impl Payload for u64 {
    const ID_BITS: u32 = 64;
    const COUNTS_DROPS: bool = false;
    fn make(id: u64) -> Self {
        id
    }
    fn key(&self) -> u64 {
        *self
    }
    fn intact(&self) -> bool {
        true
    }
}
impl Payload for u8 {
    const ID_BITS: u32 = 8;
    const COUNTS_DROPS: bool = false;
    fn make(id: u64) -> Self {
        id as u8
    }
    fn key(&self) -> u64 {
        u64::from(*self)
    }
    fn intact(&self) -> bool {
        true
    }
}

fn ck(id: u64) -> u64 {
    (id ^ 0xA5A5_5A5A_DEAD_BEEF).wrapping_mul(0x9E37_79B9_7F4A_7C15)
}

pub struct Tok16 {
    id: u64,
    ck: u64,
}
impl Drop for Tok16 {
    fn drop(&mut self) {
        note_drop(self.id);
    }
}
impl Payload for Tok16 {
    const ID_BITS: u32 = 64;
    const COUNTS_DROPS: bool = true;
    fn make(id: u64) -> Self {
        Tok16 { id, ck: ck(id) }
    }
    fn key(&self) -> u64 {
        self.id
    }
    fn intact(&self) -> bool {
        self.ck == ck(self.id)
    }
}

#[repr(align(16))]
pub struct A16 {
    id: u64,
    ck: u64,
    pad: u128,
}
impl Drop for A16 {
    fn drop(&mut self) {
        note_drop(self.id);
    }
}
impl Payload for A16 {
    const ID_BITS: u32 = 64;
    const COUNTS_DROPS: bool = true;
    fn make(id: u64) -> Self {
        A16 { id, ck: ck(id), pad: u128::from(ck(id)) << 64 | u128::from(id) }
    }
    fn key(&self) -> u64 {
        self.id
    }
    fn intact(&self) -> bool {
        self.ck == ck(self.id) && self.pad == (u128::from(ck(self.id)) << 64 | u128::from(self.id))
    }
}

pub struct B100 {
    bytes: [u8; 100],
}
impl B100 {
    fn id(&self) -> u64 {
        u64::from_le_bytes(self.bytes[0..8].try_into().unwrap())
    }
}
impl Drop for B100 {
    fn drop(&mut self) {
        note_drop(self.id());
    }
}
impl Payload for B100 {
    const ID_BITS: u32 = 64;
    const COUNTS_DROPS: bool = true;
    fn make(id: u64) -> Self {
        let mut bytes = [0u8; 100];
        bytes[0..8].copy_from_slice(&id.to_le_bytes());
        for (i, b) in bytes.iter_mut().enumerate().skip(8) {
            *b = (id as u8).wrapping_mul(31).wrapping_add(i as u8);
        }
        B100 { bytes }
    }
    fn key(&self) -> u64 {
        self.id()
    }
    fn intact(&self) -> bool {
        let id = self.id();
        self.bytes.iter().enumerate().skip(8).all(|(i, b)| *b == (id as u8).wrapping_mul(31).wrapping_add(i as u8))
    }
}

/// A payload sized so that its list node is exactly 8 bytes smaller than the page (N = page - 52): the tail such a node
/// leaves of a fresh page cannot hold a free-list header.
pub struct Edge<const N: usize> {
    bytes: [u8; N],
}
impl<const N: usize> Edge<N> {
    fn id(&self) -> u64 {
        u64::from_le_bytes(self.bytes[0..8].try_into().unwrap())
    }
}
impl<const N: usize> Drop for Edge<N> {
    fn drop(&mut self) {
        note_drop(self.id());
    }
}
impl<const N: usize> Payload for Edge<N> {
    const ID_BITS: u32 = 64;
    const COUNTS_DROPS: bool = true;
    fn make(id: u64) -> Self {
        let mut bytes = [0u8; N];
        bytes[0..8].copy_from_slice(&id.to_le_bytes());
        for (i, b) in bytes.iter_mut().enumerate().skip(8) {
            *b = (id as u8).wrapping_mul(29).wrapping_add(i as u8);
        }
        Edge { bytes }
    }
    fn key(&self) -> u64 {
        self.id()
    }
    fn intact(&self) -> bool {
        let id = self.id();
        self.bytes.iter().enumerate().skip(8).all(|(i, b)| *b == (id as u8).wrapping_mul(29).wrapping_add(i as u8))
    }
}

pub struct K2 {
    words: [u64; 250],
}
impl Drop for K2 {
    fn drop(&mut self) {
        note_drop(self.words[0]);
    }
}
impl Payload for K2 {
    const ID_BITS: u32 = 64;
    const COUNTS_DROPS: bool = true;
    fn make(id: u64) -> Self {
        let mut words = [0u64; 250];
        words[0] = id;
        for (i, w) in words.iter_mut().enumerate().skip(1) {
            *w = ck(id).wrapping_add(i as u64);
        }
        K2 { words }
    }
    fn key(&self) -> u64 {
        self.words[0]
    }
    fn intact(&self) -> bool {
        let id = self.words[0];
        self.words.iter().enumerate().skip(1).all(|(i, w)| *w == ck(id).wrapping_add(i as u64))
    }
}

pub struct Str {
    id: u64,
    s: String,
}
impl Drop for Str {
    fn drop(&mut self) {
        note_drop(self.id);
    }
}
impl Payload for Str {
    const ID_BITS: u32 = 64;
    const COUNTS_DROPS: bool = true;
    fn make(id: u64) -> Self {
        Str { id, s: format!("payload-{id}-{}", "x".repeat((id % 40) as usize)) }
    }
    fn key(&self) -> u64 {
        self.id
    }
    fn intact(&self) -> bool {
        self.s == format!("payload-{}-{}", self.id, "x".repeat((self.id % 40) as usize))
    }
}

pub struct Bx {
    b: Box<[u64; 4]>,
}
impl Drop for Bx {
    fn drop(&mut self) {
        note_drop(self.b[0]);
    }
}
impl Payload for Bx {
    const ID_BITS: u32 = 64;
    const COUNTS_DROPS: bool = true;
    fn make(id: u64) -> Self {
        Bx { b: Box::new([id, ck(id), !id, 7]) }
    }
    fn key(&self) -> u64 {
        self.b[0]
    }
    fn intact(&self) -> bool {
        self.b[1] == ck(self.b[0]) && self.b[2] == !self.b[0] && self.b[3] == 7
    }
}

pub struct Zst;
impl Drop for Zst {
    fn drop(&mut self) {
        ZST_DROPS.with(|z| *z.borrow_mut() += 1);
    }
}
impl Payload for Zst {
    const ID_BITS: u32 = 0;
    const COUNTS_DROPS: bool = true;
    fn make(_: u64) -> Self {
        Zst
    }
    fn key(&self) -> u64 {
        0
    }
    fn intact(&self) -> bool {
        true
    }
}

thread_local! {
    static PANIC_ON: RefCell<Option<u64>> = const { RefCell::new(None) };
}

/// A payload whose destructor can be told to panic once (fault: error in Drop).
pub struct PTok {
    id: u64,
    ck: u64,
}
impl Drop for PTok {
    fn drop(&mut self) {
        note_drop(self.id);
        let fire = PANIC_ON.with(|p| {
            let mut p = p.borrow_mut();
            if *p == Some(self.id) {
                *p = None;
                true
            } else {
                false
            }
        });
        if fire {
            panic!("injected: payload destructor panics");
        }
    }
}
impl Payload for PTok {
    const ID_BITS: u32 = 64;
    const COUNTS_DROPS: bool = true;
    fn make(id: u64) -> Self {
        PTok { id, ck: ck(id) }
    }
    fn key(&self) -> u64 {
        self.id
    }
    fn intact(&self) -> bool {
        self.ck == ck(self.id)
    }
}

pub const PAYLOADS: &[&str] = &["u64", "u8", "tok16", "a16", "b100", "k2", "str", "box", "zst"];

// ---------------------------------------------------------------- shadow allocation map

#[derive(Default)]
struct Shadow {
    pages: BTreeMap<usize, usize>,
    live: BTreeMap<usize, usize>,
    errors: Vec<(String, String)>,
    pages_added: u64,
    allocs: u64,
    reuse: u64,
    /// every address ever freed (to count reuse)
    freed: std::collections::BTreeSet<usize>,
    released: u64,
    max_pages: usize,
}

fn shadow_observer(ev: VerifAllocEvent) {
    SHADOW.with(|s| {
        let mut s = s.borrow_mut();
        let s = &mut *s;
        let mut err = |rule: &str, msg: String| {
            if s.errors.len() < 8 {
                s.errors.push((rule.to_string(), msg));
            }
        };
        match ev {
            VerifAllocEvent::PageAdded { addr, len } => {
                if let Some((&pa, &pl)) = s.pages.range(..addr + len).next_back() {
                    if pa + pl > addr {
                        err("page-overlap", format!("new page {addr:#x}+{len} overlaps page {pa:#x}+{pl}"));
                    }
                }
                s.pages.insert(addr, len);
                s.pages_added += 1;
                s.max_pages = s.max_pages.max(s.pages.len());
            }
            VerifAllocEvent::PageReleased { addr, len } => {
                match s.pages.remove(&addr) {
                    Some(l) if l == len => {}
                    Some(l) => err("page-release", format!("page {addr:#x} released with len {len}, was {l}")),
                    None => err("page-release", format!("page {addr:#x} released but not owned (double release?)")),
                }
                s.released += 1;
            }
            VerifAllocEvent::Allocated { addr, size, requested_size, requested_align } => {
                s.allocs += 1;
                if requested_align == 0 || addr % requested_align != 0 {
                    err("alloc-misaligned", format!("allocation {addr:#x} not aligned to {requested_align}"));
                }
                if size < requested_size {
                    err("alloc-too-small", format!("allocation of {size} bytes for a request of {requested_size}"));
                }
                let span = size.max(requested_size);
                // inside one owned page
                let inside = s
                    .pages
                    .range(..=addr)
                    .next_back()
                    .map(|(&pa, &pl)| addr >= pa && addr + span <= pa + pl)
                    .unwrap_or(false);
                if !inside {
                    err("alloc-outside-page", format!("allocation {addr:#x}+{span} is not inside an owned page"));
                }
                // disjoint from live allocations
                if let Some((&la, &ls)) = s.live.range(..addr + span).next_back() {
                    if la + ls > addr {
                        err("alloc-overlap", format!("allocation {addr:#x}+{span} overlaps live allocation {la:#x}+{ls}"));
                    }
                }
                if s.freed.contains(&addr) {
                    s.reuse += 1;
                }
                s.live.insert(addr, span);
            }
            VerifAllocEvent::Deallocated { addr, size } => {
                let inside = s.pages.range(..=addr).next_back().map(|(&pa, &pl)| addr >= pa && addr + size <= pa + pl).unwrap_or(false);
                if !inside {
                    err("dealloc-outside-page", format!("deallocation at {addr:#x}+{size} touches memory that is not (or no longer) an owned page"));
                }
                match s.live.remove(&addr) {
                    Some(l) => {
                        if size > l {
                            err("dealloc-size", format!("deallocation of {size} bytes at {addr:#x}, allocation had {l}"));
                        }
                    }
                    None => err("dealloc-unknown", format!("deallocation at {addr:#x} which is not a live allocation")),
                }
                if s.freed.len() < 100_000 {
                    s.freed.insert(addr);
                }
            }
        }
    });
}

// ---------------------------------------------------------------- model

#[derive(Clone, Copy, PartialEq, Eq, Debug)]
enum St {
    Pending,
    Fetched,
    Cancelled,
}

struct Entry<P> {
    time: u64,
    st: St,
    zero: bool,
    handle: Option<EventHandle<P>>,
}

pub fn max_delta(t_ns: u64) -> u64 {
    t_ns.saturating_mul(200_000)
}

fn resolve(pat: &Pat, a: u64, now: u64, n: u64, t: u64, pending_times: &dyn Fn(u64) -> Option<u64>, all_times: &dyn Fn(u64) -> Option<u64>) -> u64 {
    if *pat == Pat::Never {
        return NEVER;
    }
    let year = n.saturating_mul(t);
    let k = 1 + a % 3;
    let bucket_start = now / t * t;
    let raw = match pat {
        Pat::Now => now,
        Pat::Delta => now.saturating_add(a),
        Pat::InHead => {
            let end = bucket_start.saturating_add(t);
            let room = end.saturating_sub(now).max(1);
            now + a % room
        }
        Pat::Boundary => bucket_start.saturating_add(k.saturating_mul(t)),
        Pat::BoundaryM1 => bucket_start.saturating_add(k.saturating_mul(t)).saturating_sub(1).max(now),
        Pat::BoundaryP1 => bucket_start.saturating_add(k.saturating_mul(t)).saturating_add(1),
        Pat::Year => now.saturating_add(k.saturating_mul(year)),
        Pat::YearM1 => now.saturating_add(k.saturating_mul(year)).saturating_sub(1).max(now),
        Pat::YearP1 => now.saturating_add(k.saturating_mul(year)).saturating_add(1),
        Pat::Tie => pending_times(a).unwrap_or(now.saturating_add(a % t.max(1))),
        Pat::TieAll => all_times(a).unwrap_or(now),
        Pat::Far | Pat::MegaFar | Pat::Never => now.saturating_add(a),
    };
    let raw = raw.max(now);
    // keep the bucket scan of a single fetch bounded
    let reach = if *pat == Pat::MegaFar { t.saturating_mul(3_000_000) } else { max_delta(t) };
    let cap = now.saturating_add(reach).min(u64::MAX / 4);
    raw.min(cap).max(now)
}

pub fn execute(prog: &FesProgram, prop: &str) -> RunInfo {
    match prog.payload.as_str() {
        "u64" => exec_typed::<u64>(prog, prop),
        "u8" => exec_typed::<u8>(prog, prop),
        "tok16" => exec_typed::<Tok16>(prog, prop),
        "a16" => exec_typed::<A16>(prog, prop),
        "b100" => exec_typed::<B100>(prog, prop),
        "k2" => exec_typed::<K2>(prog, prop),
        "str" => exec_typed::<Str>(prog, prop),
        "box" => exec_typed::<Bx>(prog, prop),
        "zst" => exec_typed::<Zst>(prog, prop),
        "ptok" => exec_typed::<PTok>(prog, prop),
        "edge" => {
            // the node of Edge<page - 52> occupies page - 8 bytes; the page size is forced to the one the type is made for
            let mut p = prog.clone();
            let page = if prog.page_size == 0 { 4096 } else { prog.page_size.next_power_of_two().clamp(512, 16384) };
            match page {
                512 => {
                    p.page_size = 512;
                    exec_typed_opt::<Edge<460>>(&p, prop, true)
                }
                1024 => {
                    p.page_size = 1024;
                    exec_typed_opt::<Edge<972>>(&p, prop, true)
                }
                2048 | 4096 => {
                    // page_size 0 (the system's page size) stays 0: on this platform that is 4096 as well
                    p.page_size = if prog.page_size == 0 { 0 } else { 4096 };
                    exec_typed_opt::<Edge<4044>>(&p, prop, true)
                }
                _ => {
                    p.page_size = 16384;
                    exec_typed_opt::<Edge<16332>>(&p, prop, true)
                }
            }
        }
        "full" => {
            // the node of Edge<page - 44> is exactly as large as a page
            let mut p = prog.clone();
            let page = if prog.page_size == 0 { 4096 } else { prog.page_size.next_power_of_two().clamp(512, 16384) };
            match page {
                512 => {
                    p.page_size = 512;
                    exec_typed_opt::<Edge<468>>(&p, prop, true)
                }
                1024 => {
                    p.page_size = 1024;
                    exec_typed_opt::<Edge<980>>(&p, prop, true)
                }
                2048 | 4096 => {
                    p.page_size = if prog.page_size == 0 { 0 } else { 4096 };
                    exec_typed_opt::<Edge<4052>>(&p, prop, true)
                }
                _ => {
                    p.page_size = 16384;
                    exec_typed_opt::<Edge<16340>>(&p, prop, true)
                }
            }
        }
        _ => exec_typed::<u64>(prog, prop),
    }
}

fn node_fits<P>(page: usize) -> bool {
    // EventNode<P> = Option<P> + Duration + usize + 2 pointers; be conservative
    let approx = std::mem::size_of::<Option<P>>() + 16 + 8 + 16 + std::mem::align_of::<P>().max(8) * 2;
    approx <= page
}

fn exec_typed<P: Payload>(prog: &FesProgram, prop: &str) -> RunInfo {
    exec_typed_opt::<P>(prog, prop, false)
}

fn exec_typed_opt<P: Payload>(prog: &FesProgram, prop: &str, exact_page: bool) -> RunInfo {
    let mut info = RunInfo::default();
    DROPS.with(|d| d.borrow_mut().clear());
    ZST_DROPS.with(|z| *z.borrow_mut() = 0);
    SHADOW.with(|s| *s.borrow_mut() = Shadow::default());
    des_cqueue::verif_set_alloc_observer(Some(shadow_observer));

    let n = prog.n.max(1);
    let t = prog.t_ns.max(1);
    let mut page = prog.page_size;
    if exact_page {
        info.probe(if prog.payload == "full" { "node_of_exactly_page_size" } else { "node_of_page_size_minus_8" });
    }
    if page != 0 && !exact_page {
        page = page.next_power_of_two().clamp(256, 1 << 20);
        while !node_fits::<P>(page) {
            page *= 2;
        }
    }

    let res = std::panic::catch_unwind(std::panic::AssertUnwindSafe(|| {
        run_ops::<P>(prog, prop, n, t, page, &mut info);
    }));
    des_cqueue::verif_set_alloc_observer(None);

    if let Err(p) = res {
        let (msg, loc) = crate::take_panic(p);
        let in_alloc = loc.contains("alloc.rs") || loc.contains("boxed.rs");
        let owner = if in_alloc { "C15" } else { "C01" };
        info.violate(Violation::new(owner, "panic", format!("queue operation panicked: {msg} at {loc}")));
    }
    // shadow-map errors belong to C15
    SHADOW.with(|s| {
        let s = s.borrow();
        for (rule, msg) in &s.errors {
            info.violate(Violation::new("C15", rule, msg.clone()));
        }
        info.probe_n("pages_added", s.pages_added);
        info.probe_n("allocations", s.allocs);
        info.probe_n("freed_node_reused", s.reuse);
        if s.max_pages >= 2 {
            info.probe("multi_page_run");
        }
    });
    info
}

#[allow(clippy::too_many_lines)]
fn run_ops<P: Payload>(prog: &FesProgram, prop: &str, n: usize, t: u64, page: usize, info: &mut RunInfo) {
    let mut q: CQueue<P> = if page == 0 {
        CQueue::new(n, bucket_dur(t))
    } else {
        CQueue::verif_with_page_size(n, bucket_dur(t), page)
    };
    let whole_axis = t == WHOLE_AXIS;
    if whole_axis {
        info.probe("one_bucket_spanning_the_whole_time_axis");
    }
    let mut entries: Vec<Entry<P>> = Vec::new();
    let mut now: u64 = 0;
    let mut pending: usize = 0;
    let mut pending_never: usize = 0;
    let mut cancels_done: u32 = 0;
    let mut th = TraceHash::default();
    let mut any_cancel = false;
    let mut fetch_after_cancel = false;
    let mut tie_seen = false;
    let mut wrap_seen = false;
    let mut zst_created: u64 = 0;
    let mut tie_candidates: Vec<(usize, usize)> = Vec::new();
    let want_c01 = prop == "C01";
    let want_c03 = prop == "C03";
    let want_c15 = prop == "C15";
    let inv_every = prog.inv_every.max(1) as usize;

    macro_rules! bail {
        ($v:expr) => {{
            info.violate($v);
            info.trace_hash = th.0;
            // drop handles before the queue
            drop(entries);
            drop(q);
            return;
        }};
    }

    let total_ops = prog.ops.len();
    let mut step = 0usize;
    // the drain phase is expressed as extra fetches
    loop {
        let op: FesOp = if step < total_ops {
            prog.ops[step].clone()
        } else if (prog.drain || want_c03) && (pending > pending_never || (whole_axis && pending > 0)) {
            FesOp::Fetch
        } else {
            break;
        };
        step += 1;

        match op {
            FesOp::Add { pat, a } => {
                let pend_times = |k: u64| -> Option<u64> {
                    let c = entries.iter().filter(|e| e.st == St::Pending).count() as u64;
                    if c == 0 {
                        return None;
                    }
                    entries.iter().filter(|e| e.st == St::Pending).nth((k % c) as usize).map(|e| e.time)
                };
                let all_times = |k: u64| -> Option<u64> {
                    if entries.is_empty() {
                        return None;
                    }
                    let e = &entries[(k % entries.len() as u64) as usize];
                    if e.time >= now {
                        Some(e.time)
                    } else {
                        None
                    }
                };
                let time = resolve(&pat, a, now, n as u64, t, &pend_times, &all_times);
                let id = entries.len() as u64;
                if P::ID_BITS == 0 {
                    zst_created += 1;
                }
                let zero = time == now;
                if zero {
                    info.probe("add_at_current_time");
                }
                if entries.iter().any(|e| e.st == St::Pending && e.time == time) {
                    tie_seen = true;
                    info.probe("tie_created");
                }
                let year = (n as u64).saturating_mul(t);
                if year > 0 && time / year > now / year {
                    wrap_seen = true;
                    info.probe("add_beyond_year");
                }
                let h = q.add(to_dur(time), P::make(id));
                entries.push(Entry { time, st: St::Pending, zero, handle: Some(h) });
                pending += 1;
                if time == NEVER {
                    pending_never += 1;
                    info.probe("event_at_duration_max");
                }
                th.push(1 + u64::from(zero) * 2);
            }
            FesOp::Cancel { sel, k } => {
                // candidates by selector, fallback to any pending
                let pend: Vec<usize> = entries.iter().enumerate().filter(|(_, e)| e.st == St::Pending && e.handle.is_some()).map(|(i, _)| i).collect();
                if pend.is_empty() {
                    th.push(20);
                    continue;
                }
                let bucket_of = |time: u64| bucket_index(time, n as u64, t);
                let cands: Vec<usize> = match sel {
                    Sel::Any => pend.clone(),
                    Sel::AtNow => pend.iter().copied().filter(|&i| entries[i].time == now && !entries[i].zero).collect(),
                    Sel::Zero => pend.iter().copied().filter(|&i| entries[i].zero).collect(),
                    Sel::Min => {
                        let m = pend.iter().map(|&i| entries[i].time).min().unwrap();
                        pend.iter().copied().filter(|&i| entries[i].time == m).collect()
                    }
                    Sel::Max => {
                        let m = pend.iter().map(|&i| entries[i].time).max().unwrap();
                        pend.iter().copied().filter(|&i| entries[i].time == m).collect()
                    }
                    Sel::LastOfBucket => {
                        // the latest element of some bucket
                        let pick = pend[(k as usize) % pend.len()];
                        let b = bucket_of(entries[pick].time);
                        let m = pend.iter().copied().filter(|&i| !entries[i].zero && bucket_of(entries[i].time) == b).map(|i| entries[i].time).max();
                        match m {
                            Some(m) => pend.iter().copied().filter(|&i| entries[i].time == m && bucket_of(entries[i].time) == b).collect(),
                            None => Vec::new(),
                        }
                    }
                };
                let cands = if cands.is_empty() { pend } else { cands };
                let i = cands[(k as usize) % cands.len()];
                if entries[i].time == now && !entries[i].zero {
                    info.probe("cancel_at_current_time_in_bucket");
                }
                if entries[i].zero {
                    info.probe("cancel_in_zero_bucket");
                }
                info.probe("cancel_pending");
                let h = entries[i].handle.take().unwrap();
                let inject = prog.payload == "ptok" && prog.cancel_panic == Some(cancels_done);
                cancels_done += 1;
                if inject {
                    PANIC_ON.with(|p| *p.borrow_mut() = Some(i as u64));
                    let r = std::panic::catch_unwind(std::panic::AssertUnwindSafe(|| q.cancel(h)));
                    PANIC_ON.with(|p| *p.borrow_mut() = None);
                    if r.is_err() {
                        crate::clear_panic();
                        info.probe("destructor_panic_during_cancel");
                    }
                } else {
                    q.cancel(h);
                }
                entries[i].st = St::Cancelled;
                pending -= 1;
                if entries[i].time == NEVER {
                    pending_never -= 1;
                }
                any_cancel = true;
                th.push(21);
                if want_c15 && P::COUNTS_DROPS && P::ID_BITS == 64 && drops_of(i as u64) > 1 {
                    bail!(Violation::new("C15", "payload-double-drop", format!("payload {i} dropped {} times after cancel", drops_of(i as u64))));
                }
            }
            FesOp::AddPast { a } => {
                if now == 0 {
                    th.push(50);
                    continue;
                }
                let time = now - 1 - a % now;
                let id = entries.len() as u64;
                if P::ID_BITS == 0 {
                    zst_created += 1;
                }
                let r = std::panic::catch_unwind(std::panic::AssertUnwindSafe(|| q.add(Duration::from_nanos(time), P::make(id))));
                match r {
                    Err(_) => {
                        crate::clear_panic();
                        info.probe("past_add_rejected");
                        // the rejected payload was dropped by the unwinding; it never was in the queue
                        entries.push(Entry { time, st: St::Cancelled, zero: false, handle: None });
                        th.push(51);
                    }
                    Ok(_) => {
                        // accepted: whether that is allowed is not this property's statement (C02 speaks about it at
                        // runtime level); the history is not judged any further
                        info.trace_hash = th.0;
                        drop(entries);
                        drop(q);
                        return;
                    }
                }
            }
            FesOp::CancelFetched { k } => {
                let f: Vec<usize> = entries.iter().enumerate().filter(|(_, e)| e.st == St::Fetched && e.handle.is_some()).map(|(i, _)| i).collect();
                if f.is_empty() {
                    th.push(30);
                    continue;
                }
                let i = f[(k as usize) % f.len()];
                let h = entries[i].handle.take().unwrap();
                q.cancel(h);
                info.probe("cancel_already_fetched");
                th.push(31);
            }
            FesOp::Fetch => {
                if pending > 0 && pending == pending_never && !whole_axis {
                    // only events at Duration::MAX are left: out of reach of any fetch
                    th.push(41);
                    continue;
                }
                if pending == 0 {
                    // fetch is only defined on a non-empty queue
                    if !q.is_empty() && want_c01 {
                        bail!(Violation::new("C01", "len", format!("queue reports non-empty (len {}) but nothing is pending", q.len())));
                    }
                    th.push(40);
                    continue;
                }
                // expected by the exact rule (C03) and by time order (C01)
                let exp_exact = {
                    let z = entries.iter().enumerate().filter(|(_, e)| e.st == St::Pending && e.zero).map(|(i, _)| i).next();
                    match z {
                        Some(i) => i,
                        None => entries.iter().enumerate().filter(|(_, e)| e.st == St::Pending).min_by_key(|(i, e)| (e.time, *i)).map(|(i, _)| i).unwrap(),
                    }
                };
                let min_time = entries.iter().filter(|e| e.st == St::Pending).map(|e| e.time).min().unwrap();
                if q.is_empty() {
                    if want_c01 {
                        bail!(Violation::new("C01", "len", format!("queue reports empty but {pending} events are pending")));
                    }
                    info.trace_hash = th.0;
                    return;
                }
                let (payload, time) = q.fetch_next();
                let time_ns = from_dur(time);
                if time_ns == NEVER {
                    info.probe("event_at_duration_max_fetched");
                }
                if any_cancel {
                    fetch_after_cancel = true;
                }
                // identify
                if want_c15 && !payload.intact() {
                    bail!(Violation::new("C15", "payload-corrupt", format!("payload fetched at {time:?} does not carry the bit pattern it was created with")));
                }
                let got: usize = if P::ID_BITS == 64 {
                    payload.key() as usize
                } else {
                    // the payload cannot carry a full id: attribute the fetch to a pending event of the
                    // returned timestamp whose low id bits match (the one the exact rule predicts, if it qualifies)
                    let mask: u64 = if P::ID_BITS == 0 { 0 } else { (1u64 << P::ID_BITS) - 1 };
                    let qualifies = |i: usize, e: &Entry<P>| e.st == St::Pending && e.time == time_ns && (i as u64 & mask) == (payload.key() & mask);
                    if qualifies(exp_exact, &entries[exp_exact]) {
                        exp_exact
                    } else if let Some(i) = entries.iter().enumerate().find(|(i, e)| qualifies(*i, e)).map(|(i, _)| i) {
                        i
                    } else {
                        // either the value is not one that was inserted for this timestamp (C15) or the
                        // queue returned a wrong timestamp (C01's business, not checked in this run)
                        let value_known = entries.iter().enumerate().any(|(i, _)| (i as u64 & mask) == (payload.key() & mask));
                        if want_c15 && !value_known {
                            bail!(Violation::new("C15", "payload-corrupt", format!("fetched payload value {} at {time:?} matches no event that was ever inserted", payload.key())));
                        }
                        info.trace_hash = th.0;
                        return;
                    }
                };
                if got >= entries.len() {
                    if want_c01 {
                        bail!(Violation::new("C01", "fetch-unknown", format!("fetch returned payload id {got} that was never added")));
                    }
                    if want_c15 {
                        bail!(Violation::new("C15", "payload-corrupt", format!("fetch returned payload id {got} that was never added")));
                    }
                    info.trace_hash = th.0;
                    return;
                }
                match entries[got].st {
                    St::Pending => {}
                    St::Cancelled => {
                        if want_c01 {
                            let e = &entries[got];
                            bail!(Violation::new("C01", "cancelled-returned", format!("event {got} (time {} ns) was cancelled while pending but fetch returned it", e.time))
                                .fact("cancel_time_eq_queue_time", i64::from(e.time == now)));
                        }
                        info.trace_hash = th.0;
                        std::mem::forget(payload);
                        return;
                    }
                    St::Fetched => {
                        if want_c01 {
                            bail!(Violation::new("C01", "duplicate", format!("event {got} returned a second time")));
                        }
                        info.trace_hash = th.0;
                        std::mem::forget(payload);
                        return;
                    }
                }
                if entries[got].time != time_ns {
                    if want_c01 {
                        bail!(Violation::new("C01", "timestamp", format!("event {got} was scheduled for {} ns but returned with {} ns", entries[got].time, time_ns)));
                    }
                    info.trace_hash = th.0;
                    return;
                }
                if time_ns != min_time {
                    if want_c01 {
                        bail!(Violation::new("C01", "order", format!("fetch returned event {got} at {time_ns} ns while an event at {min_time} ns is pending")));
                    }
                    info.trace_hash = th.0;
                    return;
                }
                if want_c03 && got != exp_exact && P::ID_BITS == 64 {
                    // the tie rule ranks `exp_exact` before `got`. Whether an event is returned at all is C01's
                    // statement, so the inversion only counts once the overtaken event is returned as well.
                    if entries[exp_exact].time == time_ns {
                        tie_candidates.push((got, exp_exact));
                    }
                }
                if want_c03 {
                    if let Some((x, y)) = tie_candidates.iter().find(|(_, y)| *y == got).copied() {
                        bail!(Violation::new("C03", "tie-order", format!(
                            "at {time_ns} ns event {x} (scheduled {}) was dispatched before event {y} (scheduled {}) which the tie rule ranks first",
                            if entries[x].zero { "for the current instant" } else { "ahead of time" },
                            if entries[y].zero { "for the current instant" } else { "ahead of time" }
                        )));
                    }
                }
                if got != exp_exact && !want_c03 && !want_c01 {
                    // C15 run whose order diverged from the model: not C15's business
                    info.trace_hash = th.0;
                    std::mem::forget(payload);
                    return;
                }
                if want_c15 && P::COUNTS_DROPS && P::ID_BITS == 64 && drops_of(got as u64) != 0 {
                    bail!(Violation::new("C15", "payload-early-drop", format!("payload {got} was already dropped when fetch returned it")));
                }
                entries[got].st = St::Fetched;
                pending -= 1;
                if entries[got].zero {
                    info.probe("fetch_from_zero_bucket");
                }
                now = time_ns;
                th.push(41 + u64::from(entries[got].zero));
                drop(payload);
                info.events += 1;
            }
        }

        // cross-invariants after every operation
        if want_c01 {
            if q.len() != pending {
                bail!(Violation::new("C01", "len", format!("after op #{step} len() = {} but scheduled - cancelled - fetched = {pending}", q.len()))
                    .fact("after_cancel", i64::from(matches!(prog.ops.get(step - 1), Some(FesOp::Cancel { .. })))));
            }
            if q.is_empty() != (pending == 0) {
                bail!(Violation::new("C01", "len", format!("after op #{step} is_empty() = {} with {pending} pending", q.is_empty())));
            }
            if from_dur(q.time()) != now {
                bail!(Violation::new("C01", "queue-time", format!("after op #{step} time() = {:?}, last fetched timestamp is {now} ns", q.time())));
            }
        }
        if step % inv_every == 0 || step == total_ops {
            match q.verif_check_invariants() {
                Ok(snap) => {
                    // the scan window must stay on the bucket grid, else events near a bucket boundary are taken a lap late
                    if want_c01 {
                        let (t0, t1) = (snap.t0.as_nanos(), snap.t1.as_nanos());
                        let tw = bucket_dur(t).as_nanos();
                        let aligned = t1 == t0 + tw && t0 % tw == 0 && snap.head as u128 == (t0 / tw) % (n as u128);
                        let covers = t0 <= snap.t_current.as_nanos() && snap.t_current.as_nanos() <= t1;
                        if !aligned || !covers {
                            bail!(Violation::new("C01", "structure", format!(
                                "after op #{step}: scan window [{t0}, {t1}) ns with head bucket {} is off the bucket grid (width {tw} ns, {n} buckets) or does not cover the queue time {} ns",
                                snap.head, snap.t_current.as_nanos())));
                        }
                    }
                    // abstract state: occupancy per bucket (capped), zero len, head offset
                    let mut sh = TraceHash::default();
                    sh.push(snap.zero.len().min(3) as u64);
                    for (i, b) in snap.buckets.iter().enumerate() {
                        if !b.is_empty() {
                            sh.push(((i + snap.n - snap.head) % snap.n) as u64 * 4 + b.len().min(3) as u64);
                        }
                    }
                    if info.states.len() < 64 {
                        info.states.push(sh.0);
                    }
                }
                Err(e) => {
                    if want_c01 {
                        bail!(Violation::new("C01", "structure", format!("after op #{step}: {e}")));
                    }
                }
            }
        }
    }

    // end of history: the queue is dropped (crash point for C15) with `pending` events inside
    if pending > 0 {
        info.probe("dropped_with_pending");
        if entries.iter().any(|e| e.st == St::Pending && e.zero) {
            info.probe("dropped_with_zero_bucket_pending");
        }
    }
    info.sim_time_ns = u128::from(now);
    info.trace_hash = th.0;
    let n_entries = entries.len();
    let states: Vec<St> = entries.iter().map(|e| e.st).collect();
    let mut destructor_panicked = false;
    if let Some(k) = prog.drop_panic {
        let pend: Vec<usize> = entries.iter().enumerate().filter(|(_, e)| e.st == St::Pending).map(|(i, _)| i).collect();
        if !pend.is_empty() && prog.payload == "ptok" {
            let victim = pend[k as usize % pend.len()];
            PANIC_ON.with(|p| *p.borrow_mut() = Some(victim as u64));
            info.probe("destructor_panic_injected");
        }
    }
    let times: Vec<u64> = entries.iter().map(|e| e.time).collect();
    let mut victim_bucket: Option<u64> = None;
    if let Some(v) = PANIC_ON.with(|p| *p.borrow()) {
        victim_bucket = Some(bucket_index(times[v as usize], n as u64, t));
    }
    drop(entries);
    let unwind = prog.drop_in_unwind && prog.drop_panic.is_none();
    let dr = std::panic::catch_unwind(std::panic::AssertUnwindSafe(move || {
        if unwind {
            // the user of the queue panics while it owns the queue: the queue is dropped during unwinding
            let _owned = q;
            panic!("injected: user code panics while holding the queue");
        }
        drop(q);
    }));
    if dr.is_err() {
        crate::clear_panic();
        if unwind {
            info.probe("queue_dropped_during_unwinding");
        } else {
            destructor_panicked = true;
            info.probe("destructor_panic_during_queue_drop");
        }
    }
    PANIC_ON.with(|p| *p.borrow_mut() = None);
    if want_c15 && P::COUNTS_DROPS {
        if P::ID_BITS == 64 {
            for id in 0..n_entries {
                let d = drops_of(id as u64);
                if d == 0 {
                    // also after a payload destructor panicked while the queue was dropped: like the std collections, the
                    // queue goes on releasing the remaining events (of the same bucket as well) while the panic unwinds
                    let behind = destructor_panicked && victim_bucket == Some(bucket_index(times[id], n as u64, t));
                    let what = if behind { " (it was queued behind a payload whose destructor panicked while the queue was dropped)" } else { "" };
                    info.violate(
                        Violation::new("C15", "payload-leak", format!("payload {id} ({:?}) was never dropped although the queue is gone{what}", states[id]))
                            .fact("behind_panicking_destructor", behind as i64),
                    );
                    break;
                }
                if d > 1 {
                    info.violate(Violation::new("C15", "payload-double-drop", format!("payload {id} ({:?}) was dropped {d} times", states[id])));
                    break;
                }
            }
        } else {
            let d = ZST_DROPS.with(|z| *z.borrow());
            if d != zst_created {
                info.violate(Violation::new("C15", if d < zst_created { "payload-leak" } else { "payload-double-drop" }, format!("{zst_created} zero-sized payloads created, {d} dropped")));
            }
        }
    }
    if want_c15 {
        SHADOW.with(|s| {
            let s = s.borrow();
            if !s.pages.is_empty() && s.errors.is_empty() {
                // pages still owned after the queue is gone: not a stated violation (leak of raw pages), only recorded
                info.probe("pages_not_released");
            }
        });
    }
    let multi_page = SHADOW.with(|s| s.borrow().max_pages >= 2);
    let reused = SHADOW.with(|s| s.borrow().reuse > 0);
    info.nontrivial = match prop {
        "C01" => fetch_after_cancel || tie_seen || wrap_seen,
        "C03" => tie_seen,
        "C15" => (multi_page && reused) || pending > 0,
        _ => true,
    };
}

// ---------------------------------------------------------------- generator

pub fn generate(prop: &str, rng: &mut Rng, tier: Tier) -> FesProgram {
    const NS: [usize; 10] = [1, 2, 3, 4, 5, 8, 16, 64, 256, 1028];
    const NW: [u32; 10] = [10, 12, 10, 12, 8, 10, 8, 6, 3, 3];
    const TS: [u64; 10] = [1, 2, 7, 1_000, 1_000_000, 2_500_000, 700_000_000, 1_000_000_000, 2_300_000_000, 3_000_000_000];
    let n = NS[rng.weighted(&NW)];
    let t_ns = *rng.pick(&TS);

    let payload: &str = match prop {
        "C15" if rng.chance(1, 24) => "full",
        "C15" if rng.chance(1, 12) => "edge",
        "C15" => PAYLOADS[rng.usize(PAYLOADS.len())],
        _ => {
            if rng.chance(9, 10) {
                "u64"
            } else {
                *rng.pick(&["tok16", "a16", "str"])
            }
        }
    };
    let page_size = if prop == "C15" {
        let menu: &[usize] = if payload == "k2" { &[0, 4096, 16384] } else { &[0, 512, 1024, 4096, 16384] };
        *rng.pick(menu)
    } else {
        0
    };

    // history length: small-biased, tail for page recycling
    let max_ops: u64 = match (prop, tier) {
        ("C15", Tier::Quick) => 1500,
        ("C15", Tier::Thorough) => 5000,
        (_, Tier::Quick) => 400,
        (_, Tier::Thorough) => 1200,
    };
    let mut len = 1 + rng.small(max_ops) as usize;
    if prop == "C15" && rng.chance(1, 4) {
        len = len.max(200 + rng.usize(max_ops as usize - 200));
    }
    if n >= 256 {
        len = len.min(300);
    }

    // swarm: op mix and enabled patterns for this run
    let w_add = 2 + rng.below(8) as u32;
    let w_fetch = 1 + rng.below(8) as u32;
    let w_cancel = if rng.chance(3, 4) { 1 + rng.below(5) as u32 } else { 0 };
    let with_past = (prop == "C01" || prop == "C15") && rng.chance(1, 4);
    let w_cf = if rng.chance(1, 3) { 1 + rng.below(2) as u32 } else { 0 };
    let pats = [Pat::Now, Pat::Delta, Pat::InHead, Pat::Boundary, Pat::BoundaryM1, Pat::BoundaryP1, Pat::Year, Pat::YearM1, Pat::YearP1, Pat::Tie, Pat::TieAll, Pat::Far];
    let mut pw: Vec<u32> = pats.iter().map(|_| if rng.chance(1, 2) { 1 + rng.below(6) as u32 } else { 0 }).collect();
    if prop == "C03" {
        pw[0] += 4; // Now
        pw[9] += 6; // Tie
        pw[10] += 2;
    }
    if pw.iter().all(|w| *w == 0) {
        pw[1] = 1;
    }
    if rng.chance(9, 10) {
        pw[11] = pw[11].min(1); // Far is rare
    }
    let sels = [Sel::Any, Sel::AtNow, Sel::Zero, Sel::Min, Sel::Max, Sel::LastOfBucket];
    let sw: Vec<u32> = sels.iter().map(|_| 1 + rng.below(4) as u32).collect();
    let phased = prop == "C15" && rng.chance(1, 2);
    let phase_len = 20 + rng.usize(300);

    let mut ops = Vec::with_capacity(len);
    for i in 0..len {
        let (wa, wf) = if phased {
            if (i / phase_len) % 2 == 0 { (w_add * 4, w_fetch) } else { (w_add, w_fetch * 4) }
        } else {
            (w_add, w_fetch)
        };
        match rng.weighted(&[wa, wf, w_cancel, w_cf]) {
            0 => {
                let pat = pats[rng.weighted(&pw)].clone();
                let a = match pat {
                    Pat::Delta => {
                        // relative to the bucket width: within a bucket, a few buckets, a few years
                        match rng.below(4) {
                            0 => rng.below(t_ns.max(1)),
                            1 => rng.below(t_ns.saturating_mul(4).max(1)),
                            2 => rng.below(t_ns.saturating_mul(n as u64).saturating_mul(3).max(1)),
                            _ => rng.below(8),
                        }
                    }
                    Pat::Far => rng.below(max_delta(t_ns).max(1)),
                    _ => rng.u64() >> 8,
                };
                ops.push(FesOp::Add { pat, a });
            }
            1 if with_past && rng.chance(1, 12) => ops.push(FesOp::AddPast { a: rng.u64() >> 8 }),
            1 => ops.push(FesOp::Fetch),
            2 => ops.push(FesOp::Cancel { sel: sels[rng.weighted(&sw)].clone(), k: rng.below(1 << 16) as u32 }),
            _ => ops.push(FesOp::CancelFetched { k: rng.below(1 << 16) as u32 }),
        }
    }
    // rarely: one event hundreds of "years" ahead, followed by ordinary traffic around it
    if prop == "C01" && rng.chance(1, 100) && !ops.is_empty() {
        let pos = rng.usize(ops.len());
        ops.insert(pos, FesOp::Add { pat: Pat::MegaFar, a: rng.below(t_ns.saturating_mul(3_000_000).max(1)) });
    }
    // now and then one bucket list grows long (hundreds of pending events in very few buckets) and then receives events
    // that belong at its very front, in its middle and at its end
    if (prop == "C01" || prop == "C03") && rng.chance(1, 40) {
        let mut pre: Vec<FesOp> = Vec::new();
        for _ in 0..260 + rng.usize(200) {
            pre.push(FesOp::Add { pat: Pat::Delta, a: 1 + rng.below(t_ns.saturating_mul(3).max(2)) });
        }
        for _ in 0..1 + rng.small(6) {
            pre.push(FesOp::Add { pat: rng.pick(&[Pat::Now, Pat::Now, Pat::Delta, Pat::Tie]).clone(), a: rng.below(t_ns.max(2)) });
        }
        pre.extend(ops.drain(..));
        ops = pre;
    }
    // now and then events scheduled at Duration::MAX ("never"): they are cancelled or dropped with the queue
    if (prop == "C01" || prop == "C15") && rng.chance(1, 10) {
        for _ in 0..1 + rng.small(2) {
            let pos = rng.usize(ops.len() + 1);
            ops.insert(pos, FesOp::Add { pat: Pat::Never, a: 0 });
        }
    }
    let drain = if prop == "C15" { rng.chance(1, 2) } else { rng.chance(9, 10) };
    let inv_every = if n <= 64 { 1 } else { 1 + (n as u32 / 64) };
    let mut payload = payload.to_string();
    let mut drop_panic = None;
    let mut drain = drain;
    if prop == "C15" && rng.chance(1, 8) {
        payload = "ptok".to_string();
        drop_panic = Some(rng.below(1 << 16) as u32);
        drain = false;
    }
    let drop_in_unwind = prop == "C15" && drop_panic.is_none() && !drain && rng.chance(1, 4);
    // C01 under the same fault: a payload whose destructor panics when its event is cancelled (the caller catches the
    // panic): the event is gone, and the queue counts it as gone
    if prop == "C01" && rng.chance(1, 20) {
        payload = "ptok".to_string();
    }
    let cancel_panic = if payload == "ptok" && (prop == "C01" || rng.chance(1, 2)) { Some(rng.below(5) as u32) } else { None };
    if cancel_panic.is_some() && rng.chance(1, 2) {
        drop_panic = None;
        drain = rng.chance(1, 2);
    }
    // now and then the calendar degenerates to one sorted list: a single bucket as wide as the whole time axis. There a
    // fetch does reach the events scheduled for Duration::MAX, several of them (ties at the largest instant) included.
    let (n, t_ns, inv_every) = if (prop == "C01" || prop == "C03") && rng.chance(1, 40) {
        for _ in 0..2 + rng.small(6) {
            let pos = rng.usize(ops.len() + 1);
            ops.insert(pos, FesOp::Add { pat: Pat::Never, a: 0 });
        }
        (1, WHOLE_AXIS, 1)
    } else {
        (n, t_ns, inv_every)
    };
    FesProgram { n, t_ns, page_size, payload, inv_every, ops, drain, drop_panic, drop_in_unwind, cancel_panic }
}
