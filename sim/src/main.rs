//! dsim — worker of the deterministic-simulation checks for PetrichorIT/des.
//!
//! dsim run  --prop C01 --tier quick --seed S --from A --to B --out FILE [--known FILE]
//! dsim exec --prop C01            (program JSON on stdin; prints verdict JSON; exit 0 ok / 1 violation)
//! dsim gen  --prop C01 --tier quick --seed S --index I      (prints the program JSON)
//! dsim merge FILE...              (count distinct u64 in binary files)

mod asy;
mod bodies;
mod common;
mod fes;
mod intr;
mod net;
mod net_gen;
mod net_oracles;
mod prng;
mod rt;

use common::*;
use serde::{Deserialize, Serialize};
use std::cell::RefCell;
use std::collections::BTreeMap;
use std::io::{Read, Write};
use std::sync::atomic::{AtomicU64, Ordering};

#[derive(Serialize, Deserialize, Clone, Debug, Hash)]
#[serde(tag = "engine")]
pub enum Program {
    #[serde(rename = "fes")]
    Fes(fes::FesProgram),
    #[serde(rename = "rt")]
    Rt(rt::RtProgram),
    #[serde(rename = "net")]
    Net(net::NetProgram),
}

pub fn generate(prop: &str, seed: u64, tier: Tier) -> Program {
    let mut rng = prng::Rng::new(seed);
    match prop {
        // one C01 program in eight drives the event set through the runtime (paused at limits, events added from outside)
        "C01" if rng.chance(1, 8) => Program::Rt(rt::generate(prop, &mut rng, tier)),
        "C01" | "C15" => Program::Fes(fes::generate(prop, &mut rng, tier)),
        "C03" => match rng.below(5) {
            0 | 1 => Program::Fes(fes::generate(prop, &mut rng, tier)),
            2 | 3 => Program::Rt(rt::generate(prop, &mut rng, tier)),
            _ => Program::Net(net_gen::gen_c03_net(&mut rng, tier)),
        },
        // one C10 program in ten is a network simulation that is paused and fed with messages from outside
        "C10" if rng.chance(1, 10) => Program::Net(net_gen::gen_c10_net(&mut rng, tier)),
        // one C02 program in twelve is a network simulation (messages for past instants, handler clocks of deliveries)
        "C02" if rng.chance(1, 12) => Program::Net(net_gen::gen_c02_net(&mut rng, tier)),
        "C02" | "C10" | "C11" => Program::Rt(rt::generate(prop, &mut rng, tier)),
        "C08" => Program::Net(net_gen::gen_c08(&mut rng, tier)),
        "C07" => Program::Net(net_gen::gen_c07(&mut rng, tier)),
        "C12" => Program::Net(net_gen::gen_c12(&mut rng, tier)),
        "C14" => Program::Net(net_gen::gen_c14(&mut rng, tier)),
        "C04" => Program::Net(net_gen::gen_c04(&mut rng, tier)),
        "C09" => Program::Net(net_gen::gen_c09(&mut rng, tier)),
        "C13" => Program::Net(net_gen::gen_c13(&mut rng, tier)),
        "C16" => Program::Net(net_gen::gen_c16(&mut rng, tier)),
        "C20" => Program::Net(net_gen::gen_c20(&mut rng, tier)),
        "C05" | "C06" => {
            let mut p = if prop == "C05" { asy::gen_c05(&mut rng, tier) } else { asy::gen_c06(&mut rng, tier) };
            // one program in 25: the timer futures are created on helper threads and handed to the tasks
            p.timers_elsewhere = rng.chance(1, 25);
            Program::Net(p)
        }
        _ => {
            eprintln!("dsim: no engine for property {prop}");
            std::process::exit(2);
        }
    }
}

pub fn execute(prop: &str, prog: &Program) -> RunInfo {
    match prog {
        Program::Fes(p) => fes::execute(p, prop),
        Program::Rt(p) => rt::execute(p, prop),
        Program::Net(p) => execute_net(prop, p),
    }
}

thread_local! {
    static REF_HASH: RefCell<Option<u64>> = const { RefCell::new(None) };
}

fn reference_program() -> net::NetProgram {
    let mut rng = prng::Rng::new(0xC0FFEE);
    let mut p = net_gen::gen_c04(&mut rng, Tier::Quick);
    p.seed = 77;
    // the reference model also looks at the global view of its simulation
    for m in &mut p.modules {
        m.beats.insert(0, net::Beat { at_ns: 0, acts: vec![net::Act::QueryTree] });
    }
    p
}

/// Trace hash of a fixed reference simulation. Called once at worker start (fresh process) and again after
/// simulations that ended with faults: "a new simulation behaves as in a fresh process".
fn reference_hash() -> u64 {
    let res = net::run_net(&reference_program(), &net::RunOpts::default());
    let mut th = TraceHash(net::trace_hash(&res.trace));
    th.push(hash64(&(res.ok, &res.errors, res.escaped_panic.is_some())));
    th.0
}

pub fn init_reference() {
    // only meaningful if the reference simulation is reproducible in this build at all (C04's statement)
    let h = reference_hash();
    let h2 = reference_hash();
    REF_HASH.with(|r| *r.borrow_mut() = if h == h2 { Some(h) } else { None });
}

fn follow_up_ok(prop: &str, what: &str, info: &mut RunInfo) -> bool {
    let fresh = REF_HASH.with(|r| *r.borrow());
    let Some(fresh) = fresh else { return true };
    let r = std::panic::catch_unwind(reference_hash);
    match r {
        Ok(h) if h == fresh => true,
        Ok(_) => {
            info.violate(Violation::new(prop, "follow-up-differs", format!("a reference simulation run in the same process after {what} behaves differently than in a fresh process")));
            false
        }
        Err(p) => {
            let (msg, loc) = take_panic(p);
            info.violate(Violation::new(prop, "follow-up-panics", format!("a reference simulation run in the same process after {what} panicked: {msg} at {loc}")));
            info.tainted = true;
            false
        }
    }
}

fn execute_net(prop: &str, p: &net::NetProgram) -> RunInfo {
    let mut info = RunInfo::default();
    let opts = net::RunOpts { collect_gate_info: prop == "C08", twin: false, inject_before_start: None };
    let res = net::run_net(p, &opts);
    info.trace_hash = net::trace_hash(&res.trace);
    if !matches!(prop, "C04" | "C20") && net_oracles::foreign_records(p, &res) {
        return info;
    }
    match prop {
        "C09" => net_oracles::check_c09(p, &res, &mut info),
        "C05" | "C06" => {
            info.probe_n("timer_created_on_another_thread", asy::timers_made_elsewhere());
            asy::check_tasks(p, &res, prop, &mut info);
        }
        "C16" => net_oracles::check_c16(p, &res, &mut info),
        "C13" if p.blocks.first() == Some(&7) => {
            info.probe("joined_block_handler_fails_after_asking_for_a_restart");
            if let Some(e) = &res.escaped_panic {
                info.violate(Violation::new("C13", "simulator-aborted", format!("a panic escaped the simulator: {e}")));
            } else if res.started && !res.errors.iter().any(|(k, path)| k == "join-panic" && path == "blk0") {
                info.violate(Violation::new("C13", "task-panic-not-reported", format!(
                    "the handler task of the joined block blk0 panicked (after it had asked for a restart of its node) but run() does not report it (errors: {:?}, ok: {:?})", res.errors, res.ok)));
            }
            info.nontrivial = true;
        }
        "C13" => {
            // the twin comparison presupposes that a seeded run is reproducible (C04's statement): check it on this program
            let again = net::run_net(p, &opts);
            if net::trace_hash(&again.trace) != info.trace_hash {
                return info;
            }
            let twin = net::run_net(p, &net::RunOpts { collect_gate_info: false, twin: true, inject_before_start: None });
            net_oracles::check_c13(p, &res, &twin, &mut info);
            if !info.has("C13") {
                follow_up_ok("C13", "a simulation with panicking modules", &mut info);
            }
        }
        "C20" => {
            let stop = format!("end_mode {} max_events {} max_time {} ns drop_order {}", p.end_mode, p.max_events, p.max_time_ns, p.drop_order);
            let mut ok = net_oracles::check_c20(p, &res, &stop, &mut info);
            info.events += res.ok.map_or(0, |o| o.1 as u64);
            let total_events = res.ok.map_or(0, |o| o.1);
            let mut nontrivial = false;
            let pending_msgs = |r: &net::NetResult| r.ok.map_or(false, |o| o.2 > 0);
            nontrivial |= pending_msgs(&res);
            // every stopping point of this program: EventCount(k) for each event index (bounded)
            if ok && p.end_mode == 0 && p.max_events == 0 && p.max_time_ns == 0 {
                let upto = total_events.min(40);
                for k in 1..=upto {
                    let mut q = p.clone();
                    q.max_events = k as u64;
                    let r = net::run_net(&q, &net::RunOpts::default());
                    info.probe("stop_point_enumerated");
                    nontrivial |= pending_msgs(&r);
                    if !net_oracles::check_c20(&q, &r, &format!("stopped by EventCount({k}), drop_order {}", q.drop_order), &mut info) {
                        ok = false;
                        break;
                    }
                }
            }
            // the application an error-free run hands back is run a second time (in a new runtime) before it is dropped
            if ok && p.end_mode == 0 && res.ok.is_some() && p.late_links.is_empty() && p.injections.is_empty() && p.seed % 3 == 0 {
                let mut q = p.clone();
                q.rerun = true;
                let r = net::run_net(&q, &net::RunOpts::default());
                if r.rerun_from.is_some() {
                    info.probe("dropped_after_a_second_run");
                    nontrivial |= pending_msgs(&r);
                    if !net_oracles::check_c20(&q, &r, &format!("application run twice (second time in a new runtime), max_events {} max_time {} ns drop_order {}", q.max_events, q.max_time_ns, q.drop_order), &mut info) {
                        ok = false;
                    }
                }
            }
            // another thread of the process waits in `Sim::new` while this simulation runs: it gets its simulation only when
            // this one is gone - completely (remaining events are dropped first here, they are not owned by the simulation)
            if let (true, Some((k, _))) = (ok && p.end_mode == 0, p.intruder) {
                let seen = std::sync::Arc::new(std::sync::atomic::AtomicI64::new(-1));
                let s2 = seen.clone();
                let beats = res.trace.iter().filter(|r| matches!(r.ev, net::Ev::Beat { .. })).count().max(1);
                let other = intr::arm(k as usize % beats, move || net::wait_for_sim_and_count_live(&s2));
                let mut q = p.clone();
                q.drop_order = 2;
                let before = bodies::LIVE_TOKENS.load(std::sync::atomic::Ordering::SeqCst);
                let _ = net::run_net(&q, &net::RunOpts::default());
                intr::disarm();
                if other.join().unwrap_or(false) && before == 0 {
                    info.probe("other_thread_waited_for_its_simulation");
                    let n = seen.load(std::sync::atomic::Ordering::SeqCst);
                    if n > 0 {
                        info.violate(Violation::new("C20", "alive-when-next-simulation-starts", format!(
                            "a thread that was waiting in Sim::new got its simulation while {n} values of the previous simulation (module state, task state, messages) were still alive")));
                        ok = false;
                    }
                }
            }
            if ok {
                follow_up_ok("C20", "dropping a simulation", &mut info);
            }
            if p.logging {
                info.probe("run_with_logging_enabled");
                info.probe_n("log_events_formatted", net::take_logged());
            }
            match p.end_mode {
                1 => info.probe("dropped_before_build"),
                2 => info.probe("dropped_before_start"),
                _ => {}
            }
            if res.ok.is_none() && res.started {
                info.probe("ended_with_errors");
            }
            info.nontrivial = nontrivial;
        }

        "C10" => {
            // `res` is the stepped run (paused, messages put onto gates from outside); the reference is the uninterrupted
            // run that finds the same messages in the event set from the start
            let reference = net::run_net(p, &net::RunOpts { collect_gate_info: false, twin: false, inject_before_start: Some(res.injected_at.clone()) });
            net_oracles::check_c10_net(p, &res, &reference, &mut info);
        }
        "C08" => net_oracles::check_c08(p, &res, &mut info),
        "C07" => net_oracles::check_c07(p, &res, &mut info),
        "C12" => net_oracles::check_c12(p, &res, &mut info),
        "C14" => net_oracles::check_c14(p, &res, &mut info),
        "C03" => net_oracles::check_c03_net(p, &res, &mut info),
        "C02" => net_oracles::check_c02_net(p, &res, &mut info),
        "C04" => {
            // same program, same seed, again in this process - for some programs while another thread of the process
            // sets up a simulation of its own (it has to wait for this one; nothing it does may show here)
            let other = p.intruder.map(|(k, kind)| {
                let beats = res.trace.iter().filter(|r| matches!(r.ev, net::Ev::Beat { .. })).count().max(1);
                intr::arm(k as usize % beats, move || {
                    if kind % 2 == 0 {
                        rt::build_and_drop_generic_runtime(u64::from(kind) * 1_000_000_000);
                    } else {
                        net::build_and_drop_empty_sim();
                    }
                })
            });
            let res2 = net::run_net(p, &opts);
            intr::disarm();
            if res.rerun_from.is_some() {
                info.probe("application_run_a_second_time");
            }
            for r in &res.trace {
                if let net::Ev::Topo { n, .. } = &r.ev {
                    info.probe(if *n == u32::MAX { "topology_query_panicked" } else if *n >= 2 { "topology_routes_queried" } else { "topology_queried_with_less_than_two_destinations" });
                }
            }
            if let Some(h) = other {
                if h.join().unwrap_or(false) {
                    info.probe("other_thread_set_up_a_simulation_during_a_handler");
                }
            }
            let h2 = net::trace_hash(&res2.trace);
            info.events += res.ok.map_or(0, |o| o.1 as u64);
            info.sim_time_ns += u128::from(res.ok.map_or(0, |o| o.0));
            if res.foreign || res2.foreign {
                info.violate(Violation::new("C04", "same-process-rerun", "user code of an earlier simulation of this process ran inside a later one (events or state leaked between simulations)"));
            } else if info.trace_hash != h2 || res.ok != res2.ok || res.errors != res2.errors {
                let pos = res.trace.iter().zip(res2.trace.iter()).position(|(a, b)| a != b).unwrap_or(res.trace.len().min(res2.trace.len()));
                info.violate(Violation::new("C04", "same-process-rerun", format!(
                    "two executions of the same seeded model in one process diverge at trace record #{pos}: {:?} vs {:?}; results {:?} vs {:?}",
                    res.trace.get(pos), res2.trace.get(pos), res.ok, res2.ok)));
            }
            let jitter = p.links.iter().any(|l| l.chan.as_ref().map_or(false, |c| c.jitter_ns > 0));
            let rnd = res.trace.iter().any(|r| matches!(r.ev, net::Ev::Rand { .. }));
            info.nontrivial = (jitter && res.trace.iter().any(|r| matches!(r.ev, net::Ev::Recv { .. }))) || rnd;
            // fold the result into the hash that is compared across processes
            let mut th = TraceHash(info.trace_hash);
            th.push(hash64(&(res.ok, &res.errors)));
            info.trace_hash = th.0;
        }
        _ => {}
    }
    info
}

// ---------------------------------------------------------------- panic capture

thread_local! {
    static LAST_PANIC: RefCell<Option<(String, String)>> = const { RefCell::new(None) };
}

pub fn install_panic_hook() {
    std::panic::set_hook(Box::new(|pi| {
        let msg = if let Some(s) = pi.payload().downcast_ref::<&str>() {
            (*s).to_string()
        } else if let Some(s) = pi.payload().downcast_ref::<String>() {
            s.clone()
        } else {
            "<non-string panic payload>".to_string()
        };
        let loc = pi.location().map(|l| format!("{}:{}", l.file(), l.line())).unwrap_or_default();
        LAST_PANIC.with(|p| *p.borrow_mut() = Some((msg, loc)));
    }));
}

/// Message and location of a caught panic.
pub fn take_panic(payload: Box<dyn std::any::Any + Send>) -> (String, String) {
    let from_hook = LAST_PANIC.with(|p| p.borrow_mut().take());
    if let Some(x) = from_hook {
        return x;
    }
    let msg = if let Some(s) = payload.downcast_ref::<&str>() {
        (*s).to_string()
    } else if let Some(s) = payload.downcast_ref::<String>() {
        s.clone()
    } else {
        "<non-string panic payload>".to_string()
    };
    (msg, String::new())
}

pub fn clear_panic() {
    LAST_PANIC.with(|p| *p.borrow_mut() = None);
}

// ---------------------------------------------------------------- crash reporting

static CUR_INDEX: AtomicU64 = AtomicU64::new(u64::MAX);
static HEARTBEAT: AtomicU64 = AtomicU64::new(0);

/// A run that makes no progress for `secs` seconds of wall time is reported like a crash (with its index).
/// The watchdog thread only reads two atomics; it never touches the simulated code.
fn start_watchdog(secs: u64) {
    std::thread::spawn(move || {
        let mut last = HEARTBEAT.load(Ordering::Relaxed);
        let mut stale = 0u64;
        loop {
            std::thread::sleep(std::time::Duration::from_secs(1));
            let now = HEARTBEAT.load(Ordering::Relaxed);
            if now == last && CUR_INDEX.load(Ordering::Relaxed) != u64::MAX {
                stale += 1;
                if stale >= secs {
                    let idx = CUR_INDEX.load(Ordering::Relaxed);
                    println!("CRASH signal=0 index={idx} watchdog: no progress for {secs}s");
                    let _ = std::io::stdout().flush();
                    unsafe { libc::_exit(3) };
                }
            } else {
                stale = 0;
                last = now;
            }
        }
    });
}

extern "C" fn on_fatal_signal(sig: libc::c_int) {
    // async-signal-safe: format by hand, write(2), _exit
    let idx = CUR_INDEX.load(Ordering::Relaxed);
    let mut buf = [0u8; 64];
    let prefix = b"CRASH signal=";
    let mut n = 0;
    for b in prefix {
        buf[n] = *b;
        n += 1;
    }
    n += fmt_u64(sig as u64, &mut buf[n..]);
    for b in b" index=" {
        buf[n] = *b;
        n += 1;
    }
    n += fmt_u64(idx, &mut buf[n..]);
    buf[n] = b'\n';
    n += 1;
    unsafe {
        libc::write(1, buf.as_ptr().cast(), n);
        libc::_exit(3);
    }
}

fn fmt_u64(mut v: u64, out: &mut [u8]) -> usize {
    let mut tmp = [0u8; 20];
    let mut i = 0;
    if v == 0 {
        tmp[0] = b'0';
        i = 1;
    }
    while v > 0 {
        tmp[i] = b'0' + (v % 10) as u8;
        v /= 10;
        i += 1;
    }
    for j in 0..i {
        out[j] = tmp[i - 1 - j];
    }
    i
}

fn install_signal_handlers() {
    unsafe {
        for sig in [libc::SIGSEGV, libc::SIGBUS, libc::SIGABRT, libc::SIGILL, libc::SIGFPE] {
            libc::signal(sig, on_fatal_signal as usize);
        }
    }
}

// ---------------------------------------------------------------- cli

fn arg<'a>(args: &'a [String], name: &str) -> Option<&'a str> {
    args.iter().position(|a| a == name).and_then(|i| args.get(i + 1)).map(String::as_str)
}

fn parse_tier(s: Option<&str>) -> Tier {
    match s {
        Some("thorough") => Tier::Thorough,
        _ => Tier::Quick,
    }
}

fn write_hashes(path: &str, set: &std::collections::HashSet<u64>) {
    let mut v: Vec<u64> = set.iter().copied().collect();
    v.sort_unstable();
    let mut bytes = Vec::with_capacity(v.len() * 8);
    for x in v {
        bytes.extend_from_slice(&x.to_le_bytes());
    }
    std::fs::write(path, bytes).expect("write hashes");
}

fn trim_sample(prog: &Program) -> serde_json::Value {
    let mut v = serde_json::to_value(prog).unwrap();
    trim_value(&mut v, 0);
    v
}

fn trim_value(v: &mut serde_json::Value, depth: usize) {
    match v {
        serde_json::Value::Array(a) => {
            let cap = if depth == 0 { 40 } else { 24 };
            if a.len() > cap {
                let more = a.len() - cap;
                a.truncate(cap);
                a.push(serde_json::Value::String(format!("... {more} more")));
            }
            for x in a.iter_mut() {
                trim_value(x, depth + 1);
            }
        }
        serde_json::Value::Object(o) => {
            for (_, x) in o.iter_mut() {
                trim_value(x, depth + 1);
            }
        }
        _ => {}
    }
}

fn run_guarded(prop: &str, prog: &Program) -> RunInfo {
    clear_panic();
    match std::panic::catch_unwind(std::panic::AssertUnwindSafe(|| execute(prop, prog))) {
        Ok(i) => i,
        Err(p) => {
            let (msg, loc) = take_panic(p);
            let mut info = RunInfo::default();
            info.violate(Violation::new(prop, "harness-escape", format!("panic escaped the run: {msg} at {loc}")));
            info.tainted = true;
            info
        }
    }
}

fn cmd_run(args: &[String]) -> i32 {
    let prop = arg(args, "--prop").expect("--prop").to_string();
    let tier = parse_tier(arg(args, "--tier"));
    let seed: u64 = arg(args, "--seed").and_then(|s| s.parse().ok()).unwrap_or(20_260_925);
    let from: u64 = arg(args, "--from").and_then(|s| s.parse().ok()).unwrap_or(0);
    let to: u64 = arg(args, "--to").and_then(|s| s.parse().ok()).unwrap_or(1);
    let out = arg(args, "--out").expect("--out").to_string();
    let known = arg(args, "--known").map(load_known).unwrap_or_default();
    let roundtrip = args.iter().any(|a| a == "--roundtrip");
    let perturb = args.iter().any(|a| a == "--perturb");
    let want_hashes = args.iter().any(|a| a == "--hashes");
    let mut per_index: Vec<(u64, u64)> = Vec::new();

    let mut agg = Aggregate::default();
    let mut violation: Option<serde_json::Value> = None;
    let mut tainted = false;
    let mut next = from;

    for i in from..to {
        CUR_INDEX.store(i, Ordering::Relaxed);
        HEARTBEAT.fetch_add(1, Ordering::Relaxed);
        let s = prng::mix(seed, &prop, i);
        let mut prog = generate(&prop, s, tier);
        if roundtrip {
            // selfcheck: the replay path (JSON -> program) must be the identity
            let js = serde_json::to_string(&prog).unwrap();
            let back: Program = serde_json::from_str(&js).unwrap();
            assert_eq!(hash64(&prog), hash64(&back), "program does not survive a JSON round trip");
            prog = back;
        }
        if perturb && (i == from || i % 64 == 0) {
            perturb_process(prng::mix(seed, "perturb", i), false);
        }
        let info = run_guarded(&prop, &prog);
        if want_hashes {
            per_index.push((i, info.trace_hash));
        }
        next = i + 1;
        agg.evaluations += 1;
        agg.sim_time_ns += info.sim_time_ns;
        agg.events += info.events;
        for (k, v) in &info.probes {
            *agg.probes.entry((*k).to_string()).or_insert(0) += v;
        }
        agg.trace_hashes.insert(info.trace_hash);
        for st in &info.states {
            agg.state_hashes.insert(*st);
        }
        if info.nontrivial {
            agg.nontrivial_runs += 1;
            let h = hash64(&prog);
            if agg.nontrivial_hashes.insert(h) && agg.samples.len() < 3 {
                agg.samples.push(serde_json::json!({"run_index": i, "run_seed": s, "program": trim_sample(&prog)}));
            }
        }
        let mut stop = false;
        for v in info.violations.iter().filter(|v| v.prop == prop) {
            if let Some(k) = known.iter().find(|k| k.matches(v)) {
                *agg.known.entry(k.id.clone()).or_insert(0) += 1;
                continue;
            }
            violation = Some(serde_json::json!({
                "index": i, "run_seed": s, "rule": v.rule, "msg": v.msg, "facts": v.facts,
                "program": serde_json::to_value(&prog).unwrap(),
            }));
            stop = true;
            break;
        }
        if info.tainted {
            tainted = true;
            break;
        }
        if stop {
            break;
        }
    }
    CUR_INDEX.store(u64::MAX, Ordering::Relaxed);

    if want_hashes {
        let mut txt = String::new();
        for (i, h) in &per_index {
            txt.push_str(&format!("{i} {h}\n"));
        }
        std::fs::write(format!("{out}.hashes"), txt).expect("write per-index hashes");
    }
    write_hashes(&format!("{out}.nontrivial"), &agg.nontrivial_hashes);
    write_hashes(&format!("{out}.traces"), &agg.trace_hashes);
    write_hashes(&format!("{out}.states"), &agg.state_hashes);
    let report = serde_json::json!({
        "prop": prop, "seed": seed, "from": from, "to": to, "next": next,
        "evaluations": agg.evaluations,
        "nontrivial_runs": agg.nontrivial_runs,
        "probes": agg.probes,
        "sim_time_ns": agg.sim_time_ns.to_string(),
        "events": agg.events,
        "samples": agg.samples,
        "known": agg.known,
        "violation": violation,
        "tainted": tainted,
    });
    std::fs::write(&out, serde_json::to_string(&report).unwrap()).expect("write report");
    0
}

/// Shifts process-global identity: module ids, sleep ids and message counters (by running unrelated
/// simulations first) and heap addresses (by leaking a prelude), both sized from the seed.
/// `all_kinds`: replay mode - every kind of earlier simulation occurs at least once (a crash on this thread, a crash on
/// another thread, ordinary runs), so that a recorded cross-process difference does not depend on the batch it was found in
fn perturb_process(seed: u64, all_kinds: bool) {
    let mut rng = prng::Rng::new(seed);
    let sims = if all_kinds { 8 } else { rng.below(20) };
    for k in 0..sims {
        let mut p = net_gen::gen_c04(&mut rng, Tier::Quick);
        // some of the earlier simulations crash: a processing element panics, the panic unwinds out of `run()` and the
        // simulation is dropped during the unwinding - on this thread or on another one
        let crash = if all_kinds { k == 2 || k == 5 } else { rng.chance(1, 4) };
        if crash {
            p.gstack.push(net::PeSpec { mode: 4, m: 1, r: 0, send_hook: 0, gate: 0 });
        }
        let other_thread = if all_kinds { k == 5 } else { rng.chance(1, 2) };
        if crash && other_thread {
            let _ = std::thread::spawn(move || {
                let _ = net::run_net(&p, &net::RunOpts::default());
            })
            .join();
        } else {
            let _ = net::run_net(&p, &net::RunOpts::default());
        }
    }
    let kb = rng.below(2000) as usize;
    let prelude: Vec<u8> = vec![0xAB; kb * 1024 + 13];
    std::mem::forget(prelude);
    let small: Vec<Box<u64>> = (0..rng.below(500)).map(Box::new).collect();
    std::mem::forget(small);
}

fn cmd_exec(args: &[String]) -> i32 {
    let prop = arg(args, "--prop").expect("--prop").to_string();
    if args.iter().any(|a| a == "--perturb") {
        perturb_process(0xC04, true);
    }
    let mut s = String::new();
    std::io::stdin().read_to_string(&mut s).expect("stdin");
    let prog: Program = match serde_json::from_str(&s) {
        Ok(p) => p,
        Err(e) => {
            println!("{}", serde_json::json!({"status": "invalid", "error": e.to_string()}));
            return 2;
        }
    };
    CUR_INDEX.store(0, Ordering::Relaxed);
    let info = run_guarded(&prop, &prog);
    let vs: Vec<&Violation> = info.violations.iter().filter(|v| v.prop == prop).collect();
    let probes: BTreeMap<String, u64> = info.probes.iter().map(|(k, v)| ((*k).to_string(), *v)).collect();
    let out = serde_json::json!({
        "status": if vs.is_empty() { "ok" } else { "violation" },
        "violations": vs,
        "nontrivial": info.nontrivial,
        "probes": probes,
        "trace_hash": info.trace_hash,
        "events": info.events,
    });
    println!("{out}");
    let _ = std::io::stdout().flush();
    i32::from(!vs.is_empty())
}

fn cmd_gen(args: &[String]) -> i32 {
    let prop = arg(args, "--prop").expect("--prop").to_string();
    let tier = parse_tier(arg(args, "--tier"));
    let seed: u64 = arg(args, "--seed").and_then(|s| s.parse().ok()).unwrap_or(20_260_925);
    let index: u64 = arg(args, "--index").and_then(|s| s.parse().ok()).unwrap_or(0);
    let prog = generate(&prop, prng::mix(seed, &prop, index), tier);
    println!("{}", serde_json::to_string(&prog).unwrap());
    0
}

fn cmd_merge(args: &[String]) -> i32 {
    let mut all: Vec<u64> = Vec::new();
    for f in args {
        if let Ok(bytes) = std::fs::read(f) {
            for c in bytes.chunks_exact(8) {
                all.push(u64::from_le_bytes(c.try_into().unwrap()));
            }
        }
    }
    all.sort_unstable();
    all.dedup();
    println!("{}", all.len());
    0
}

fn main() {
    let args: Vec<String> = std::env::args().skip(1).collect();
    install_panic_hook();
    install_signal_handlers();
    let wd: u64 = arg(&args, "--watchdog").and_then(|s| s.parse().ok()).unwrap_or(45);
    if wd > 0 {
        start_watchdog(wd);
    }
    if matches!(args.first().map(String::as_str), Some("run" | "exec")) {
        let prop = arg(&args, "--prop").unwrap_or("");
        if matches!(prop, "C13" | "C20") {
            init_reference();
            install_panic_hook();
        }
    }
    let code = match args.first().map(String::as_str) {
        Some("run") => cmd_run(&args[1..]),
        Some("exec") => cmd_exec(&args[1..]),
        Some("gen") => cmd_gen(&args[1..]),
        Some("merge") => cmd_merge(&args[1..]),
        _ => {
            eprintln!("usage: dsim run|exec|gen|merge ...");
            2
        }
    };
    std::process::exit(code);
}
