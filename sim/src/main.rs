//! dsim — worker of the deterministic-simulation checks for PetrichorIT/des.
//!
//! dsim run  --prop C01 --tier quick --seed S --from A --to B --out FILE [--known FILE]
//! dsim exec --prop C01            (program JSON on stdin; prints verdict JSON; exit 0 ok / 1 violation)
//! dsim gen  --prop C01 --tier quick --seed S --index I      (prints the program JSON)
//! dsim merge FILE...              (count distinct u64 in binary files)

mod common;
mod fes;
mod prng;
mod rt;

use common::*;
use serde::{Deserialize, Serialize};
use std::cell::RefCell;
use std::collections::BTreeMap;
use std::io::{Read, Write};
use std::sync::atomic::{AtomicU64, Ordering};

#[derive(Serialize, Deserialize, Clone, Debug, Hash)]
#[serde(tag = "engine")]
pub enum Program {
    #[serde(rename = "fes")]
    Fes(fes::FesProgram),
    #[serde(rename = "rt")]
    Rt(rt::RtProgram),
}

pub fn generate(prop: &str, seed: u64, tier: Tier) -> Program {
    let mut rng = prng::Rng::new(seed);
    match prop {
        "C01" | "C15" => Program::Fes(fes::generate(prop, &mut rng, tier)),
        "C03" => {
            if rng.chance(1, 2) {
                Program::Fes(fes::generate(prop, &mut rng, tier))
            } else {
                Program::Rt(rt::generate(prop, &mut rng, tier))
            }
        }
        "C02" | "C10" | "C11" => Program::Rt(rt::generate(prop, &mut rng, tier)),
        _ => {
            eprintln!("dsim: no engine for property {prop}");
            std::process::exit(2);
        }
    }
}

pub fn execute(prop: &str, prog: &Program) -> RunInfo {
    match prog {
        Program::Fes(p) => fes::execute(p, prop),
        Program::Rt(p) => rt::execute(p, prop),
    }
}

// ---------------------------------------------------------------- panic capture

thread_local! {
    static LAST_PANIC: RefCell<Option<(String, String)>> = const { RefCell::new(None) };
}

pub fn install_panic_hook() {
    std::panic::set_hook(Box::new(|pi| {
        let msg = if let Some(s) = pi.payload().downcast_ref::<&str>() {
            (*s).to_string()
        } else if let Some(s) = pi.payload().downcast_ref::<String>() {
            s.clone()
        } else {
            "<non-string panic payload>".to_string()
        };
        let loc = pi.location().map(|l| format!("{}:{}", l.file(), l.line())).unwrap_or_default();
        LAST_PANIC.with(|p| *p.borrow_mut() = Some((msg, loc)));
    }));
}

/// Message and location of a caught panic.
pub fn take_panic(payload: Box<dyn std::any::Any + Send>) -> (String, String) {
    let from_hook = LAST_PANIC.with(|p| p.borrow_mut().take());
    if let Some(x) = from_hook {
        return x;
    }
    let msg = if let Some(s) = payload.downcast_ref::<&str>() {
        (*s).to_string()
    } else if let Some(s) = payload.downcast_ref::<String>() {
        s.clone()
    } else {
        "<non-string panic payload>".to_string()
    };
    (msg, String::new())
}

pub fn clear_panic() {
    LAST_PANIC.with(|p| *p.borrow_mut() = None);
}

// ---------------------------------------------------------------- crash reporting

static CUR_INDEX: AtomicU64 = AtomicU64::new(u64::MAX);

extern "C" fn on_fatal_signal(sig: libc::c_int) {
    // async-signal-safe: format by hand, write(2), _exit
    let idx = CUR_INDEX.load(Ordering::Relaxed);
    let mut buf = [0u8; 64];
    let prefix = b"CRASH signal=";
    let mut n = 0;
    for b in prefix {
        buf[n] = *b;
        n += 1;
    }
    n += fmt_u64(sig as u64, &mut buf[n..]);
    for b in b" index=" {
        buf[n] = *b;
        n += 1;
    }
    n += fmt_u64(idx, &mut buf[n..]);
    buf[n] = b'\n';
    n += 1;
    unsafe {
        libc::write(1, buf.as_ptr().cast(), n);
        libc::_exit(3);
    }
}

fn fmt_u64(mut v: u64, out: &mut [u8]) -> usize {
    let mut tmp = [0u8; 20];
    let mut i = 0;
    if v == 0 {
        tmp[0] = b'0';
        i = 1;
    }
    while v > 0 {
        tmp[i] = b'0' + (v % 10) as u8;
        v /= 10;
        i += 1;
    }
    for j in 0..i {
        out[j] = tmp[i - 1 - j];
    }
    i
}

fn install_signal_handlers() {
    unsafe {
        for sig in [libc::SIGSEGV, libc::SIGBUS, libc::SIGABRT, libc::SIGILL, libc::SIGFPE] {
            libc::signal(sig, on_fatal_signal as usize);
        }
    }
}

// ---------------------------------------------------------------- cli

fn arg<'a>(args: &'a [String], name: &str) -> Option<&'a str> {
    args.iter().position(|a| a == name).and_then(|i| args.get(i + 1)).map(String::as_str)
}

fn parse_tier(s: Option<&str>) -> Tier {
    match s {
        Some("thorough") => Tier::Thorough,
        _ => Tier::Quick,
    }
}

fn write_hashes(path: &str, set: &std::collections::HashSet<u64>) {
    let mut v: Vec<u64> = set.iter().copied().collect();
    v.sort_unstable();
    let mut bytes = Vec::with_capacity(v.len() * 8);
    for x in v {
        bytes.extend_from_slice(&x.to_le_bytes());
    }
    std::fs::write(path, bytes).expect("write hashes");
}

fn trim_sample(prog: &Program) -> serde_json::Value {
    let mut v = serde_json::to_value(prog).unwrap();
    trim_value(&mut v, 0);
    v
}

fn trim_value(v: &mut serde_json::Value, depth: usize) {
    match v {
        serde_json::Value::Array(a) => {
            let cap = if depth == 0 { 40 } else { 24 };
            if a.len() > cap {
                let more = a.len() - cap;
                a.truncate(cap);
                a.push(serde_json::Value::String(format!("... {more} more")));
            }
            for x in a.iter_mut() {
                trim_value(x, depth + 1);
            }
        }
        serde_json::Value::Object(o) => {
            for (_, x) in o.iter_mut() {
                trim_value(x, depth + 1);
            }
        }
        _ => {}
    }
}

fn run_guarded(prop: &str, prog: &Program) -> RunInfo {
    clear_panic();
    match std::panic::catch_unwind(std::panic::AssertUnwindSafe(|| execute(prop, prog))) {
        Ok(i) => i,
        Err(p) => {
            let (msg, loc) = take_panic(p);
            let mut info = RunInfo::default();
            info.violate(Violation::new(prop, "harness-escape", format!("panic escaped the run: {msg} at {loc}")));
            info.tainted = true;
            info
        }
    }
}

fn cmd_run(args: &[String]) -> i32 {
    let prop = arg(args, "--prop").expect("--prop").to_string();
    let tier = parse_tier(arg(args, "--tier"));
    let seed: u64 = arg(args, "--seed").and_then(|s| s.parse().ok()).unwrap_or(20_260_925);
    let from: u64 = arg(args, "--from").and_then(|s| s.parse().ok()).unwrap_or(0);
    let to: u64 = arg(args, "--to").and_then(|s| s.parse().ok()).unwrap_or(1);
    let out = arg(args, "--out").expect("--out").to_string();
    let known = arg(args, "--known").map(load_known).unwrap_or_default();
    let roundtrip = args.iter().any(|a| a == "--roundtrip");

    let mut agg = Aggregate::default();
    let mut violation: Option<serde_json::Value> = None;
    let mut tainted = false;
    let mut next = from;

    for i in from..to {
        CUR_INDEX.store(i, Ordering::Relaxed);
        let s = prng::mix(seed, &prop, i);
        let mut prog = generate(&prop, s, tier);
        if roundtrip {
            // selfcheck: the replay path (JSON -> program) must be the identity
            let js = serde_json::to_string(&prog).unwrap();
            let back: Program = serde_json::from_str(&js).unwrap();
            assert_eq!(hash64(&prog), hash64(&back), "program does not survive a JSON round trip");
            prog = back;
        }
        let info = run_guarded(&prop, &prog);
        next = i + 1;
        agg.evaluations += 1;
        agg.sim_time_ns += info.sim_time_ns;
        agg.events += info.events;
        for (k, v) in &info.probes {
            *agg.probes.entry((*k).to_string()).or_insert(0) += v;
        }
        agg.trace_hashes.insert(info.trace_hash);
        for st in &info.states {
            agg.state_hashes.insert(*st);
        }
        if info.nontrivial {
            agg.nontrivial_runs += 1;
            let h = hash64(&prog);
            if agg.nontrivial_hashes.insert(h) && agg.samples.len() < 3 {
                agg.samples.push(serde_json::json!({"run_index": i, "run_seed": s, "program": trim_sample(&prog)}));
            }
        }
        let mut stop = false;
        for v in info.violations.iter().filter(|v| v.prop == prop) {
            if let Some(k) = known.iter().find(|k| k.matches(v)) {
                *agg.known.entry(k.id.clone()).or_insert(0) += 1;
                continue;
            }
            violation = Some(serde_json::json!({
                "index": i, "run_seed": s, "rule": v.rule, "msg": v.msg, "facts": v.facts,
                "program": serde_json::to_value(&prog).unwrap(),
            }));
            stop = true;
            break;
        }
        if info.tainted {
            tainted = true;
            break;
        }
        if stop {
            break;
        }
    }
    CUR_INDEX.store(u64::MAX, Ordering::Relaxed);

    write_hashes(&format!("{out}.nontrivial"), &agg.nontrivial_hashes);
    write_hashes(&format!("{out}.traces"), &agg.trace_hashes);
    write_hashes(&format!("{out}.states"), &agg.state_hashes);
    let report = serde_json::json!({
        "prop": prop, "seed": seed, "from": from, "to": to, "next": next,
        "evaluations": agg.evaluations,
        "nontrivial_runs": agg.nontrivial_runs,
        "probes": agg.probes,
        "sim_time_ns": agg.sim_time_ns.to_string(),
        "events": agg.events,
        "samples": agg.samples,
        "known": agg.known,
        "violation": violation,
        "tainted": tainted,
    });
    std::fs::write(&out, serde_json::to_string(&report).unwrap()).expect("write report");
    0
}

fn cmd_exec(args: &[String]) -> i32 {
    let prop = arg(args, "--prop").expect("--prop").to_string();
    let mut s = String::new();
    std::io::stdin().read_to_string(&mut s).expect("stdin");
    let prog: Program = match serde_json::from_str(&s) {
        Ok(p) => p,
        Err(e) => {
            println!("{}", serde_json::json!({"status": "invalid", "error": e.to_string()}));
            return 2;
        }
    };
    CUR_INDEX.store(0, Ordering::Relaxed);
    let info = run_guarded(&prop, &prog);
    let vs: Vec<&Violation> = info.violations.iter().filter(|v| v.prop == prop).collect();
    let probes: BTreeMap<String, u64> = info.probes.iter().map(|(k, v)| ((*k).to_string(), *v)).collect();
    let out = serde_json::json!({
        "status": if vs.is_empty() { "ok" } else { "violation" },
        "violations": vs,
        "nontrivial": info.nontrivial,
        "probes": probes,
        "trace_hash": info.trace_hash,
        "events": info.events,
    });
    println!("{out}");
    let _ = std::io::stdout().flush();
    i32::from(!vs.is_empty())
}

fn cmd_gen(args: &[String]) -> i32 {
    let prop = arg(args, "--prop").expect("--prop").to_string();
    let tier = parse_tier(arg(args, "--tier"));
    let seed: u64 = arg(args, "--seed").and_then(|s| s.parse().ok()).unwrap_or(20_260_925);
    let index: u64 = arg(args, "--index").and_then(|s| s.parse().ok()).unwrap_or(0);
    let prog = generate(&prop, prng::mix(seed, &prop, index), tier);
    println!("{}", serde_json::to_string(&prog).unwrap());
    0
}

fn cmd_merge(args: &[String]) -> i32 {
    let mut all: Vec<u64> = Vec::new();
    for f in args {
        if let Ok(bytes) = std::fs::read(f) {
            for c in bytes.chunks_exact(8) {
                all.push(u64::from_le_bytes(c.try_into().unwrap()));
            }
        }
    }
    all.sort_unstable();
    all.dedup();
    println!("{}", all.len());
    0
}

fn main() {
    let args: Vec<String> = std::env::args().skip(1).collect();
    install_panic_hook();
    install_signal_handlers();
    let code = match args.first().map(String::as_str) {
        Some("run") => cmd_run(&args[1..]),
        Some("exec") => cmd_exec(&args[1..]),
        Some("gen") => cmd_gen(&args[1..]),
        Some("merge") => cmd_merge(&args[1..]),
        _ => {
            eprintln!("usage: dsim run|exec|gen|merge ...");
            2
        }
    };
    std::process::exit(code);
}
