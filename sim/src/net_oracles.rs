//! Oracles over the recorded history of a net run. Each checks only the clauses of its own property.

use crate::common::*;
use crate::net::*;
use std::collections::{BTreeMap, BTreeSet, VecDeque};
use std::time::Duration;

// ---------------------------------------------------------------- gate graph model

pub type G = (usize, usize);

pub struct Graph {
    pub adj: BTreeMap<G, Vec<(G, Option<Chan>)>>,
    /// per link index: Some(expected accepted) or None if the link references a module without gates
    pub link_ok: Vec<Option<bool>>,
    /// hop directions (from, to) served by the very channel handle that was passed to `connect` (the direction
    /// other -> self; self -> other gets a duplicate of its own)
    pub uses_handle: BTreeSet<(G, G)>,
}

pub fn build_graph(prog: &NetProgram) -> Graph {
    build_graph_with(prog, &[])
}

/// the graph after the connect calls of the builder and the given later ones
pub fn build_graph_with(prog: &NetProgram, later: &[Link]) -> Graph {
    let flat: Vec<usize> = prog.modules.iter().map(|m| flat_gates(m).len()).collect();
    let mut adj: BTreeMap<G, Vec<(G, Option<Chan>)>> = BTreeMap::new();
    let mut link_ok = Vec::new();
    let mut uses_handle = BTreeSet::new();
    for l in prog.links.iter().chain(later.iter()) {
        let (am, bm) = (l.am as usize, l.bm as usize);
        if am >= flat.len() || bm >= flat.len() || flat[am] == 0 || flat[bm] == 0 {
            link_ok.push(None);
            continue;
        }
        let a: G = (am, l.ag as usize % flat[am]);
        let b: G = (bm, l.bg as usize % flat[bm]);
        if a == b {
            link_ok.push(Some(false));
            continue;
        }
        let exists = adj.get(&a).map_or(false, |v| v.iter().any(|(p, _)| *p == b));
        if exists {
            link_ok.push(Some(true));
            continue;
        }
        let da = adj.get(&a).map_or(0, Vec::len);
        let db = adj.get(&b).map_or(0, Vec::len);
        if da < 2 && db < 2 {
            adj.entry(a).or_default().push((b, l.chan.clone()));
            adj.entry(b).or_default().push((a, l.chan.clone()));
            if l.chan.is_some() {
                uses_handle.insert(if l.flip { (a, b) } else { (b, a) });
            }
            link_ok.push(Some(true));
        } else {
            link_ok.push(Some(false));
        }
    }
    Graph { adj, link_ok, uses_handle }
}

impl Graph {
    pub fn degree(&self, g: G) -> usize {
        self.adj.get(&g).map_or(0, Vec::len)
    }
    /// hops from a non-transit gate to the far end: (gate reached, channel on that hop)
    pub fn walk(&self, from: G) -> Vec<(G, Option<Chan>)> {
        let mut out = Vec::new();
        let mut prev: Option<G> = None;
        let mut cur = from;
        for _ in 0..256 {
            let Some(nb) = self.adj.get(&cur) else { break };
            let next = nb.iter().find(|(p, _)| Some(*p) != prev);
            let Some((p, ch)) = next else { break };
            out.push((*p, ch.clone()));
            prev = Some(cur);
            cur = *p;
            if *p == from {
                break;
            }
        }
        out
    }
}

pub fn busy_ns(len: usize, bitrate: u64) -> u64 {
    if bitrate == 0 {
        0
    } else {
        Duration::from_secs_f64((len * 8) as f64 / bitrate as f64).as_nanos() as u64
    }
}

fn first_index<T>(v: &[T], f: impl Fn(&T) -> bool) -> Option<usize> {
    v.iter().position(f)
}

/// records of modules this program does not have can only come from another simulation of this process
/// (state leaking between simulations is C04's / C20's statement): such runs are not judged by the other oracles
pub fn foreign_records(prog: &NetProgram, res: &NetResult) -> bool {
    let n = normalise(prog).modules.len();
    res.foreign || res.trace.iter().any(|r| r.m as usize >= n)
}

// ---------------------------------------------------------------- C08

pub fn check_c08(prog: &NetProgram, res: &NetResult, info: &mut RunInfo) {
    let prog = &normalise(prog);
    let graph = build_graph(prog);
    if let Some(e) = &res.escaped_panic {
        info.violate(Violation::new("C08", "panic", format!("building or running the model panicked: {e}")));
        return;
    }
    // connect: accepted / rejected as the two-peer rule says
    for (li, ok) in &res.build.links {
        match graph.link_ok.get(*li).copied().flatten() {
            Some(exp) if exp != *ok => {
                info.violate(Violation::new("C08", "connect", format!(
                    "connect call #{li} {:?} was {} but must be {}", prog.links[*li], if *ok { "accepted" } else { "rejected" }, if exp { "accepted" } else { "rejected (self / third peer)" })));
                return;
            }
            _ => {}
        }
        if graph.link_ok.get(*li).copied().flatten() == Some(false) {
            info.probe("illegal_connect_rejected");
        }
    }
    // static queries on every gate
    let mut long_unordered_chain = false;
    for ((m, g), kind, path) in &res.build.gate_info {
        if *kind == 9 {
            info.violate(Violation::new("C08", "gate-query", format!("next_gate/path_end of gate ({m},{g}) disagree with path_iter")));
            return;
        }
        let deg = graph.degree((*m, *g));
        if *kind as usize != deg {
            info.violate(Violation::new("C08", "gate-kind", format!("gate ({m},{g}) reports kind {kind} (0 standalone,1 endpoint,2 transit) but has {deg} peers")));
            return;
        }
        match (deg, path) {
            (2, None) => {}
            (2, Some(_)) => {
                info.violate(Violation::new("C08", "gate-path", format!("transit gate ({m},{g}) returned a path iterator")));
                return;
            }
            (_, None) => {
                info.violate(Violation::new("C08", "gate-path", format!("non-transit gate ({m},{g}) returned no path iterator")));
                return;
            }
            (_, Some(p)) => {
                let exp: Vec<(i32, i32)> = graph.walk((*m, *g)).iter().map(|(t, _)| (t.0 as i32, t.1 as i32)).collect();
                if *p != exp {
                    info.violate(Violation::new("C08", "gate-path", format!("path from gate ({m},{g}) enumerates {p:?}, the connect calls built {exp:?}")));
                    return;
                }
                if exp.len() >= 2 {
                    info.probe("chain_of_three_or_more_gates");
                    long_unordered_chain = true;
                }
            }
        }
    }
    if res.ok.is_none() {
        if res.started {
            info.violate(Violation::new("C08", "run-error", format!("fault-free run returned errors {:?}", res.errors)));
        }
        return;
    }
    // deliveries
    let mut expected: BTreeMap<u32, (usize, u64, G, usize)> = BTreeMap::new(); // uid -> (receiver, arrival, far gate, sender)
    let mut slack: BTreeMap<u32, u64> = BTreeMap::new(); // sum of the jitter bounds of the hops
    // occupancy of every channel direction that can be busy: (enter, end of transmission, uid). Messages that would
    // overlap on such a hop queue up there - what a busy channel does is C07's subject, their arrival time is not judged
    let mut paths: Vec<(u32, u64, Vec<((G, G), u64, u64)>)> = Vec::new();
    let mut total_jitter = 0u64;
    // dynamic topology: connect calls issued by the driver while the simulation is paused. A message offered on a gate
    // whose link does not exist yet has no defined destination: such programs are not judged
    let mut late: Vec<(u64, Link)> = prog.late_links.iter().take(8).cloned().collect();
    late.sort_by_key(|l| l.0);
    let full_graphs: Vec<(u64, Graph)> = (0..late.len()).map(|k| (late[k].0, build_graph_with(prog, &late[..=k].iter().map(|l| l.1.clone()).collect::<Vec<_>>()))).collect();
    let last_graph = full_graphs.last().map_or(&graph, |g| &g.1);
    if last_graph.link_ok.iter().skip(prog.links.len()).any(|ok| *ok != Some(true)) {
        return; // only legal later connects are part of the scenario
    }
    let late_gates: BTreeSet<G> = last_graph.adj.keys().filter(|g| last_graph.degree(**g) != graph.degree(**g)).copied().collect();
    for r in &res.trace {
        if let Ev::Offer { uid, gate, len, delay_ns, .. } = &r.ev {
            let from: G = (r.m as usize, *gate as usize);
            // the graph in force when the message enters the chain: a delayed send leaves its gate at send time + delay,
            // through whatever has been connected to the gate by then
            let enter = r.t + delay_ns;
            let graph = full_graphs.iter().rev().find(|(at, _)| *at < enter).map_or(&graph, |g| &g.1);
            if !late.is_empty() {
                let touches_late = late_gates.contains(&from) || last_graph.walk(from).iter().any(|h| late_gates.contains(&h.0));
                if touches_late && late.iter().any(|l| l.0 >= enter) {
                    return;
                }
                info.probe_n("offer_over_a_link_connected_at_run_time", u64::from(touches_late));
                info.probe_n("delayed_send_issued_before_its_gate_was_connected", u64::from(touches_late && late.iter().any(|l| l.0 >= r.t)));
            }
            let hops = graph.walk(from);
            let mut t = r.t + delay_ns;
            let mut j = 0u64;
            let mut prev = from;
            let mut path: Vec<((G, G), u64, u64)> = Vec::new();
            for (g, ch) in &hops {
                if let Some(c) = ch {
                    let b = busy_ns(*len as usize, c.bitrate);
                    if b > 0 {
                        // links built from one shared handle share one channel object in the direction it serves
                        let key = if prog.share_channels && graph.uses_handle.contains(&(prev, *g)) {
                            let h = hash64(c) as usize;
                            ((usize::MAX, h), (usize::MAX, h))
                        } else {
                            (prev, *g)
                        };
                        path.push((key, b, c.latency_ns));
                    } else {
                        path.push((((usize::MAX, usize::MAX), (usize::MAX, usize::MAX)), 0, c.latency_ns));
                    }
                    t += b + c.latency_ns;
                    j += c.jitter_ns;
                    info.probe("hop_with_channel");
                }
                prev = *g;
            }
            let far = hops.last().map_or(from, |h| h.0);
            paths.push((*uid, r.t + delay_ns, path));
            total_jitter = total_jitter.max(j);
            slack.insert(*uid, j);
            expected.insert(*uid, (far.0, t, far, r.m as usize));
            if *delay_ns > 0 {
                info.probe("delayed_send");
            }
        }
    }
    // which messages meet a busy channel: a small event-driven pass over all channel hops (FIFO per channel object,
    // unbounded queue). A message that enters a hop while the channel is occupied - or within the jitter of everything
    // before it - waits there; what a busy channel does is C07's subject, so its arrival time is not judged (nor is
    // the one of the message it met, since at equal instants either may come first)
    let mut contended: BTreeSet<u32> = BTreeSet::new();
    {
        use std::cmp::Reverse;
        let mut heap: std::collections::BinaryHeap<Reverse<(u64, usize, usize)>> = std::collections::BinaryHeap::new();
        for (pi, (_, t0, path)) in paths.iter().enumerate() {
            if !path.is_empty() {
                heap.push(Reverse((*t0, pi, 0)));
            }
        }
        let mut free_at: BTreeMap<(G, G), (u64, u32)> = BTreeMap::new();
        while let Some(Reverse((t, pi, h))) = heap.pop() {
            let (uid, _, path) = &paths[pi];
            let (key, b, lat) = path[h];
            let mut leave = t + b + lat;
            if b > 0 {
                let (free, holder) = free_at.get(&key).copied().unwrap_or((0, 0));
                if free > 0 && t <= free + total_jitter {
                    contended.insert(*uid);
                    contended.insert(holder);
                }
                let start = t.max(free);
                free_at.insert(key, (start + b, *uid));
                leave = start + b + lat;
            }
            if h + 1 < path.len() {
                heap.push(Reverse((leave, pi, h + 1)));
            }
        }
    }
    info.probe_n("messages_contending_for_a_channel_not_judged_on_time", contended.len() as u64);
    let mut seen: BTreeSet<u32> = BTreeSet::new();
    for r in &res.trace {
        if let Ev::Recv { uid, sender_m, receiver_ok, last_m, last_g, kind, .. } = &r.ev {
            if *kind == SELF_KIND {
                continue;
            }
            let Some((rm, t, far, sm)) = expected.get(uid) else {
                info.violate(Violation::new("C08", "unknown-delivery", format!("module {} received message {uid:#x} that nobody sent", r.m)));
                return;
            };
            if !seen.insert(*uid) {
                info.violate(Violation::new("C08", "duplicate-delivery", format!("message {uid:#x} delivered twice")));
                return;
            }
            if r.m as usize != *rm {
                info.violate(Violation::new("C08", "wrong-receiver", format!("message {uid:#x} sent by module {sm} arrived at module {} but the chain ends at module {rm}", r.m)));
                return;
            }
            let j = slack.get(uid).copied().unwrap_or(0);
            if !contended.contains(uid) && (r.t + 2 < *t || r.t > *t + j + 2) {
                info.violate(Violation::new("C08", "arrival-time", format!(
                    "message {uid:#x} arrived at {} ns, send time + sum of hop delays = {t} ns (+ at most {j} ns of jitter)", r.t)));
                return;
            }
            if *sender_m != *sm as i32 || !receiver_ok {
                info.violate(Violation::new("C08", "header-ids", format!("message {uid:#x}: header names sender module {sender_m} (sent by {sm}), receiver id ok = {receiver_ok}")));
                return;
            }
            if (*last_m, *last_g) != (far.0 as i32, far.1 as i32) {
                info.violate(Violation::new("C08", "header-last-gate", format!("message {uid:#x}: last_gate is ({last_m},{last_g}), the chain ends at gate ({},{})", far.0, far.1)));
                return;
            }
        }
    }
    if let Some((uid, (rm, t, _, sm))) = expected.iter().find(|(u, _)| !seen.contains(u)) {
        info.violate(Violation::new("C08", "lost", format!("message {uid:#x} sent by module {sm} never reached module {rm} (expected at {t} ns)")));
        return;
    }
    info.events += res.ok.map_or(0, |o| o.1 as u64);
    info.sim_time_ns += u128::from(res.ok.map_or(0, |o| o.0));
    info.nontrivial = long_unordered_chain && !expected.is_empty();
}

// ---------------------------------------------------------------- C10 (net level)

/// A network simulation that is paused (`dispatch_events_until`) and fed with messages from outside
/// (`Runtime::add_message_onto`) against the uninterrupted run that finds the same messages in its event set from the
/// start: every module receives the same messages at the same times, and both runs dispatch the same number of events
/// and end at the same time. (The order inside one instant may differ: the messages were scheduled at different points.)
pub fn check_c10_net(prog: &NetProgram, stepped: &NetResult, reference: &NetResult, info: &mut RunInfo) {
    let prog = &normalise(prog);
    if stepped.foreign || reference.foreign {
        return;
    }
    if let Some(e) = &stepped.escaped_panic {
        info.violate(Violation::new("C10", "panic", format!("the paused network simulation panicked: {e}")));
        return;
    }
    if reference.escaped_panic.is_some() || reference.ok.is_none() {
        return;
    }
    let Some(sok) = stepped.ok else {
        info.violate(Violation::new("C10", "net-stepped-error", format!("the paused network simulation ended with errors {:?}, the uninterrupted one did not", stepped.errors)));
        return;
    };
    let rok = reference.ok.unwrap();
    let recv = |r: &NetResult| {
        let mut v: Vec<(u16, u32, u64)> = r.trace.iter().filter_map(|x| if let Ev::Recv { uid, .. } = &x.ev { Some((x.m, *uid, x.t)) } else { None }).collect();
        v.sort_unstable();
        v
    };
    let (a, b) = (recv(stepped), recv(reference));
    let injected = stepped.injected_at.iter().filter(|t| **t != u64::MAX).count() as u64;
    info.probe_n("message_injected_while_paused", injected);
    info.probe_n("message_injected_for_the_reported_instant", prog.injections.iter().zip(stepped.injected_at.iter()).filter(|(j, t)| j.delay_ns == 0 && **t != u64::MAX).count() as u64);
    if a != b {
        let d = a.iter().find(|x| !b.contains(x)).or_else(|| b.iter().find(|x| !a.contains(x)));
        info.violate(Violation::new("C10", "net-deliveries", format!(
            "paused run and uninterrupted run deliver different messages: {} vs {} deliveries, first difference (module, message, time) = {d:?}", a.len(), b.len())));
        return;
    }
    if sok.1 != rok.1 || sok.0 != rok.0 || sok.2 != rok.2 {
        info.violate(Violation::new("C10", "net-event-count", format!(
            "paused run: end time {} ns, {} events dispatched, {} remaining; uninterrupted run with the same messages: end time {} ns, {} events, {} remaining", sok.0, sok.1, sok.2, rok.0, rok.1, rok.2)));
        return;
    }
    info.events += sok.1 as u64;
    info.nontrivial = injected > 0;
}

// ---------------------------------------------------------------- C07

#[derive(Debug)]
struct OfferRec {
    t: u64,
    uid: u32,
    len: usize,
    busy: bool,
    fin: u64,
}

pub fn check_c07(prog: &NetProgram, res: &NetResult, info: &mut RunInfo) {
    let prog = &normalise(prog);
    let graph = build_graph(prog);
    if let Some(e) = &res.escaped_panic {
        info.violate(Violation::new("C07", "panic", format!("building or running the model panicked: {e}")));
        return;
    }
    if res.ok.is_none() {
        return;
    }
    const TOL: u64 = 2;
    // per direction (sending gate): offers in trace order
    let mut dirs: BTreeMap<G, Vec<OfferRec>> = BTreeMap::new();
    for r in &res.trace {
        if let Ev::Offer { uid, gate, len, busy, fin_ns, delay_ns, .. } = &r.ev {
            if *delay_ns != 0 {
                continue;
            }
            dirs.entry((r.m as usize, *gate as usize)).or_default().push(OfferRec { t: r.t, uid: *uid, len: *len as usize, busy: *busy, fin: *fin_ns });
        }
    }
    let mut arrivals: BTreeMap<u32, Vec<(u64, u32, usize)>> = BTreeMap::new();
    for r in &res.trace {
        if let Ev::Recv { uid, kind, .. } = &r.ev {
            if *kind != SELF_KIND {
                arrivals.entry(*uid).or_default().push((r.t, r.seq, r.m as usize));
            }
        }
    }
    let limit_stopped = res.ok.map_or(false, |o| o.2 > 0);
    let mut met_busy = false;
    for (from, offers) in &dirs {
        let hops = graph.walk(*from);
        // this oracle covers a single channel hop directly to the receiver
        if hops.len() != 1 {
            continue;
        }
        let Some(ch) = hops[0].1.clone() else { continue };
        let receiver = hops[0].0 .0;
        let mut busy_until: Option<u64> = None;
        let mut queue: VecDeque<(u32, usize)> = VecDeque::new();
        let mut acc: usize = 0;
        // uid -> (earliest, latest) arrival
        let mut deliver: Vec<(u32, u64, u64)> = Vec::new();
        let mut dropped: Vec<u32> = Vec::new();
        let mut start_tx = |uid: u32, len: usize, at: u64, busy_until: &mut Option<u64>, deliver: &mut Vec<(u32, u64, u64)>| {
            let b = busy_ns(len, ch.bitrate);
            if b > 0 {
                *busy_until = Some(at + b);
            } else {
                *busy_until = None;
            }
            let lo = at + b + ch.latency_ns;
            deliver.push((uid, lo, lo + ch.jitter_ns));
        };
        let mut unbusy = |busy_until: &mut Option<u64>, queue: &mut VecDeque<(u32, usize)>, acc: &mut usize, deliver: &mut Vec<(u32, u64, u64)>| {
            let at = busy_until.take().unwrap();
            // queued messages start transmission in FIFO order the instant the channel is idle; a transmission that
            // takes no measurable time leaves the channel idle, so the next one starts at the same instant
            while let Some((uid, len)) = queue.pop_front() {
                *acc -= len;
                let b = busy_ns(len, ch.bitrate);
                let lo = at + b + ch.latency_ns;
                deliver.push((uid, lo, lo + ch.jitter_ns));
                if b > 0 {
                    *busy_until = Some(at + b);
                    break;
                }
            }
        };
        for o in offers {
            // expected length: 64-byte header + declared body length, computed from the program
            let (sm, _, site, ai) = uid_parts(o.uid);
            let exp_len = expected_len(prog, sm, site, ai);
            if let Some(el) = exp_len {
                if el != o.len {
                    // C16 speaks about length; here it only matters that the channel charges the same size it reports
                }
            }
            // let the channel catch up with everything strictly before this offer
            while let Some(bu) = busy_until {
                if bu < o.t {
                    unbusy(&mut busy_until, &mut queue, &mut acc, &mut deliver);
                } else {
                    break;
                }
            }
            let mut model_busy = busy_until.is_some();
            if let Some(bu) = busy_until {
                if bu == o.t {
                    // exact tie between the end of a transmission and this offer: both orders are legal,
                    // follow the observed one and check everything downstream strictly
                    info.probe("offer_ties_with_end_of_transmission");
                    let offer_first = o.busy && o.fin == bu;
                    if !offer_first {
                        unbusy(&mut busy_until, &mut queue, &mut acc, &mut deliver);
                        model_busy = busy_until.is_some();
                    }
                }
            }
            if model_busy != o.busy {
                info.violate(Violation::new("C07", "busy-flag", format!(
                    "channel of gate {from:?} reports busy = {} at {} ns for offer {:#x}; transmissions so far make it {} (busy until {:?})",
                    o.busy, o.t, o.uid, if model_busy { "busy" } else { "idle" }, busy_until)));
                return;
            }
            if model_busy {
                met_busy = true;
                let bu = busy_until.unwrap();
                if o.fin.abs_diff(bu) > TOL {
                    info.violate(Violation::new("C07", "busy-duration", format!(
                        "channel of gate {from:?} reports transmission_finish_time {} ns, size*8/bitrate of the message in transmission gives {bu} ns", o.fin)));
                    return;
                }
                busy_until = Some(o.fin);
                match ch.queue {
                    -2 => {
                        dropped.push(o.uid);
                        info.probe("dropped_busy");
                    }
                    -1 => {
                        queue.push_back((o.uid, o.len));
                        acc += o.len;
                        info.probe("queued");
                    }
                    lim => {
                        if acc + o.len <= lim.max(0) as usize {
                            queue.push_back((o.uid, o.len));
                            acc += o.len;
                            info.probe("queued");
                        } else {
                            dropped.push(o.uid);
                            info.probe("dropped_queue_full");
                        }
                    }
                }
            } else {
                start_tx(o.uid, o.len, o.t, &mut busy_until, &mut deliver);
            }
        }
        while busy_until.is_some() {
            unbusy(&mut busy_until, &mut queue, &mut acc, &mut deliver);
        }
        // compare with what the receiver saw (a receiver that is shut down at some point ignores deliveries: that is
        // C09's subject; the channel-side accounting above is still checked)
        let receiver_goes_down = res.trace.iter().any(|r| r.m as usize == receiver && matches!(r.ev, Ev::ShutdownReq { .. } | Ev::PanicNow));
        if res.trace.iter().any(|r| r.m as usize == from.0 && matches!(r.ev, Ev::PanicNow)) && !deliver.is_empty() {
            info.probe("sender_panicked_after_offering");
        }
        let end_time = res.ok.map_or(u64::MAX, |o| o.0);
        let mut last_seq: Option<u32> = None;
        for (uid, lo, hi) in &deliver {
            let arr = arrivals.get(uid).cloned().unwrap_or_default();
            if arr.is_empty() {
                if (limit_stopped && *hi >= end_time) || receiver_goes_down {
                    continue;
                }
                info.violate(Violation::new("C07", "lost", format!(
                    "message {uid:#x} offered to the channel of gate {from:?} was neither dropped by the busy/queue rule nor delivered (due at {lo} ns)")));
                return;
            }
            if arr.len() > 1 {
                info.violate(Violation::new("C07", "duplicate", format!("message {uid:#x} was delivered {} times", arr.len())));
                return;
            }
            let (t, seq, m) = arr[0];
            if m != receiver {
                continue; // routing is C08's statement
            }
            if t + TOL < *lo || t > *hi + TOL {
                info.violate(Violation::new("C07", "arrival-time", format!(
                    "message {uid:#x} arrived at {t} ns; transmission start + size*8/bitrate + latency = {lo} ns, jitter bound {} ns", hi - lo))
                    .fact("late", i64::from(t > *hi + TOL)));
                return;
            }
            if ch.jitter_ns == 0 {
                if let Some(ls) = last_seq {
                    if seq < ls {
                        info.violate(Violation::new("C07", "fifo", format!("message {uid:#x} overtook an earlier offer on the jitter-free channel of gate {from:?}")));
                        return;
                    }
                }
                last_seq = Some(seq);
            }
        }
        for uid in &dropped {
            if arrivals.contains_key(uid) {
                info.violate(Violation::new("C07", "dropped-delivered", format!(
                    "message {uid:#x} had to be dropped (busy channel / full queue at gate {from:?}) but was delivered")));
                return;
            }
        }
    }
    info.events += res.ok.map_or(0, |o| o.1 as u64);
    info.sim_time_ns += u128::from(res.ok.map_or(0, |o| o.0));
    info.nontrivial = met_busy;
}

pub fn expected_len(prog: &NetProgram, m: usize, site: usize, ai: usize) -> Option<usize> {
    let spec = prog.modules.get(m)?;
    let act = if site >= PE_SITE_BASE {
        return Some(64);
    } else if site == START_SITE {
        spec.start_acts.get(ai)?
    } else if site == END_SITE {
        spec.end_acts.get(ai)?
    } else if site >= RX_SITE_BASE {
        &spec.rx.get(site - RX_SITE_BASE)?.act
    } else {
        spec.beats.get(site)?.acts.get(ai)?
    };
    match act {
        Act::Send { body, .. } => Some(64 + crate::bodies::declared_len_uid(*body, uid_of(m, site, ai, 0))),
        _ => None, // forwarded messages keep the length of the original
    }
}

// ---------------------------------------------------------------- C12

pub fn check_c12(prog: &NetProgram, res: &NetResult, info: &mut RunInfo) {
    match res.rerun_from {
        // an application that was run a second time: each of the two simulations has to show the complete life cycle
        Some(k) if k <= res.trace.len() && res.escaped_panic.is_none() => {
            info.probe("application_run_a_second_time");
            check_c12_life(prog, res, &res.trace[..k], true, "", info);
            if info.violations.is_empty() {
                check_c12_life(prog, res, &res.trace[k..], res.ok.is_some(), " [second simulation of the same application]", info);
            }
        }
        _ => check_c12_life(prog, res, &res.trace, res.ok.is_some(), if res.rerun_from.is_some() { " [second simulation of the same application]" } else { "" }, info),
    }
}

fn check_c12_life(prog: &NetProgram, res: &NetResult, trace: &[Rec], ok: bool, which: &str, info: &mut RunInfo) {
    let prog = &normalise(prog);
    if let Some(e) = &res.escaped_panic {
        info.violate(Violation::new("C12", "panic", format!("building or running the model panicked{which}: {e}")));
        return;
    }
    if let Some(m) = res.build.node_failed {
        info.violate(Violation::new("C12", "valid-node-rejected", format!("creating node {} (parent exists, path unused) panicked", module_path(prog, m))));
        return;
    }
    for (bi, rejected) in &res.build.bad_nodes {
        if !rejected {
            info.violate(Violation::new("C12", "invalid-node-accepted", format!("builder accepted an invalid node: {:?}", prog.bad_nodes[*bi])));
            return;
        }
        info.probe("invalid_node_rejected");
    }
    let end_faults = prog.inner_end_err || prog.modules.iter().any(|m| m.end_err || m.panic_at == 200 || m.beats.iter().any(|b| b.acts.iter().any(|a| matches!(a, Act::Panic))));
    if prog.inner_end_err {
        info.probe("inner_application_fails_at_the_end");
    }
    if !ok {
        if res.started && !end_faults {
            info.violate(Violation::new("C12", "run-error", format!("fault-free run returned errors {:?}{which}", res.errors)));
        }
        if !res.started || !end_faults {
            return;
        }
        info.probe("at_sim_end_failed_somewhere");
    }
    // expected start sequence: stage-major, depth-first pre-order, siblings in creation order
    let order = &res.build.order;
    let mut children: BTreeMap<i32, Vec<usize>> = BTreeMap::new();
    for &m in order {
        children.entry(prog.modules[m].parent).or_default().push(m);
    }
    let mut pre: Vec<usize> = Vec::new();
    fn dfs(m: usize, children: &BTreeMap<i32, Vec<usize>>, out: &mut Vec<usize>) {
        out.push(m);
        if let Some(c) = children.get(&(m as i32)) {
            for &x in c {
                dfs(x, children, out);
            }
        }
    }
    if let Some(tops) = children.get(&-1) {
        for &t in tops {
            dfs(t, &children, &mut pre);
        }
    }
    let max_stage = prog.modules.iter().map(|m| eff_stages(m) as usize).max().unwrap_or(1).max(1);
    let mut expect: Vec<(usize, u8)> = Vec::new();
    for stage in 0..max_stage {
        for &m in &pre {
            if stage < eff_stages(&prog.modules[m]) as usize {
                expect.push((m, stage as u8));
            }
        }
    }
    let all_starts: Vec<(usize, u8, u16)> = trace.iter().filter_map(|r| if let Ev::Start { stage, inc } = r.ev { Some((r.m as usize, stage, inc)) } else { None }).collect();
    // the start-up of the simulation comes first and is complete before anything else happens; what follows it are the
    // start-up stages of restarts (a module may ask for a shutdown-and-restart from its start-up callback)
    let got: Vec<(usize, u8)> = all_starts.iter().take(expect.len()).map(|(m, s, _)| (*m, *s)).collect();
    if let Some((m, s, _)) = all_starts.iter().skip(expect.len()).find(|(_, _, inc)| *inc == 0) {
        info.violate(Violation::new("C12", "start-count", format!(
            "at_sim_start(stage {s}) of {} was called again after the start-up of the simulation was complete ({} calls expected){which}", module_path(prog, *m), expect.len())));
        return;
    }
    if got != expect {
        let pos = got.iter().zip(expect.iter()).position(|(a, b)| a != b).unwrap_or(got.len().min(expect.len()));
        let name = |x: Option<&(usize, u8)>| x.map(|(m, s)| format!("{}@stage{}", module_path(prog, *m), s));
        info.violate(Violation::new("C12", "start-order", format!(
            "at_sim_start call #{pos} was {:?}, expected {:?} ({} calls, {} expected){which}", name(got.get(pos)), name(expect.get(pos)), got.len(), expect.len())));
        return;
    }
    // at_sim_end exactly once per module, after the last event
    let last_event_seq = trace.iter().filter(|r| matches!(r.ev, Ev::Beat { .. } | Ev::Recv { .. } | Ev::Start { .. })).map(|r| r.seq).max().unwrap_or(0);
    let mut ends = vec![0u32; prog.modules.len()];
    for r in trace {
        if let Ev::End { .. } = r.ev {
            ends[r.m as usize] += 1;
            if r.seq < last_event_seq {
                info.violate(Violation::new("C12", "end-before-last-event", format!("at_sim_end of {} ran before the last event{which}", module_path(prog, r.m as usize))));
                return;
            }
        }
    }
    if let Some(m) = first_index(&ends, |c| *c != 1) {
        info.violate(Violation::new("C12", "end-count", format!("at_sim_end of {} was called {} times{which}", module_path(prog, m), ends[m])));
        return;
    }
    for r in trace {
        if let Ev::Query { parent_ok, children_ok, path_ok, name_ok, inactive, roundtrip_ok } = r.ev {
            if !roundtrip_ok {
                info.violate(Violation::new("C12", "tree-lookup-roundtrip", format!(
                    "module {}: going to one of its children and back (child(name)?.parent()) does not lead back to the module (error, other module, or panic)", module_path(prog, r.m as usize))));
                return;
            }
            info.probe("tree_query");
            // a relative may only be reported as inactive if it was shut down or has panicked
            if inactive != 0 {
                let m = r.m as usize;
                let went_down = |x: usize| trace.iter().any(|q| q.m as usize == x && q.seq < r.seq && matches!(q.ev, Ev::ShutdownReq { .. } | Ev::PanicNow));
                let mut rel: Vec<usize> = Vec::new();
                if inactive & 1 != 0 && prog.modules[m].parent >= 0 {
                    rel.push(prog.modules[m].parent as usize);
                }
                for (k, ci) in (0..prog.modules.len()).filter(|ci| prog.modules[*ci].parent == m as i32).enumerate() {
                    if inactive & (1 << (1 + k.min(29))) != 0 {
                        rel.push(ci);
                    }
                }
                // bit 31: the way back from a child reported this module itself as inactive
                if inactive & (1 << 31) != 0 {
                    rel.push(m);
                }
                if let Some(x) = rel.iter().find(|x| !went_down(**x)) {
                    info.violate(Violation::new("C12", "tree-lookup-inactive", format!(
                        "module {}: the lookup of its relative {} at {} ns failed with 'currently inactive' although that module was never shut down and never panicked",
                        module_path(prog, m), module_path(prog, *x), r.t)));
                    return;
                }
            }
            if !(parent_ok && children_ok && path_ok && name_ok) {
                info.violate(Violation::new("C12", "tree-lookup", format!(
                    "module {}: parent ok {parent_ok}, children ok {children_ok}, path ok {path_ok}, name ok {name_ok}", module_path(prog, r.m as usize))));
                return;
            }
        }
    }
    let order_is_preorder = *order == pre;
    let multi_stage = prog.modules.iter().any(|m| m.stages >= 2);
    if !order_is_preorder {
        info.probe("insertion_order_differs_from_preorder");
    }
    info.events += res.ok.map_or(0, |o| o.1 as u64);
    info.nontrivial = !order_is_preorder && multi_stage;
}

// ---------------------------------------------------------------- C14

pub fn stack_of(prog: &NetProgram, m: usize) -> Vec<(u16, PeSpec)> {
    let g: Vec<(u16, PeSpec)> = prog.gstack.iter().enumerate().map(|(i, p)| (i as u16, p.clone())).collect();
    let base = prog.gstack.len();
    let own: Vec<(u16, PeSpec)> = prog.modules[m].pes.iter().enumerate().map(|(i, p)| ((base + i) as u16, p.clone())).collect();
    if own.is_empty() {
        g
    } else if prog.modules[m].pes_prepend {
        own.into_iter().chain(g).collect()
    } else {
        g.into_iter().chain(own).collect()
    }
}

#[allow(clippy::too_many_lines)]
pub fn check_c14(prog: &NetProgram, res: &NetResult, info: &mut RunInfo) {
    let prog = &normalise(prog);
    if let Some(e) = &res.escaped_panic {
        info.violate(Violation::new("C14", "panic", format!("building or running the model panicked: {e}")));
        return;
    }
    // a run that ends with "joined task not finished" errors is still a complete history
    if res.ok.is_none() && !(res.started && !res.errors.is_empty() && res.errors.iter().all(|(k, _)| k == "join-not-finished")) {
        return;
    }
    let tr = &res.trace;
    // the start-up phase ends with the first message, timer or task activity; until then every bracket belongs to a
    // start-up call (timer wake-ups, the only events without a module callback, cannot happen yet)
    let first_activity = tr.iter().find(|r| matches!(r.ev, Ev::Beat { .. } | Ev::Recv { .. } | Ev::Task { .. } | Ev::PeIn { .. })).map_or(u32::MAX, |r| r.seq);
    let mut i = 0usize;
    let mut any_consume = false;
    let mut any_nonmsg = false;
    let mut deep_stack = false;
    while i < tr.len() {
        let m = tr[i].m as usize;
        let stack = stack_of(prog, m);
        match &tr[i].ev {
            Ev::Reset { .. } => {
                i += 1;
                continue;
            }
            _ => {}
        }
        if stack.is_empty() {
            // no elements installed: nothing to bracket; skip this module's records
            i += 1;
            continue;
        }
        if stack.len() >= 2 {
            deep_stack = true;
        }
        let start_i = i;
        // upstream
        let mut msg: Option<(u32, u16)> = None; // (uid, kind as the next element must see it)
        let mut has_msg = false;
        let mut consumed = false;
        for (k, (pid, pspec)) in stack.iter().enumerate() {
            match tr.get(i) {
                Some(Rec { m: rm, ev: Ev::PeStart { pe }, .. }) if *rm as usize == m && pe == pid => i += 1,
                other => {
                    info.violate(Violation::new("C14", "event-start", format!(
                        "module {m}: expected event_start of element {pid} (position {k} of the stack) at trace #{i}, found {:?}", other.map(|r| (&r.m, &r.ev)))));
                    return;
                }
            }
            // sends of the element from event_start
            while matches!(tr.get(i), Some(Rec { m: rm, ev: Ev::Offer { .. }, .. }) if *rm as usize == m) && pspec.send_hook == 1 {
                i += 1;
                break;
            }
            let incoming_here = matches!(tr.get(i), Some(Rec { m: rm, ev: Ev::PeIn { pe, .. }, .. }) if *rm as usize == m && pe == pid);
            if k == 0 {
                has_msg = incoming_here;
                if let Some(Rec { ev: Ev::PeIn { uid, kind, .. }, .. }) = tr.get(i) {
                    if incoming_here {
                        msg = Some((*uid, *kind));
                    }
                }
            }
            let should = has_msg && !consumed;
            if incoming_here != should {
                info.violate(Violation::new("C14", "incoming", format!(
                    "module {m}: element {pid} (position {k}) {} the message although {}",
                    if incoming_here { "was handed" } else { "was not handed" },
                    if consumed { "an earlier element consumed it" } else if has_msg { "no earlier element consumed it" } else { "the event carries no message" })));
                return;
            }
            if incoming_here {
                let Some(Rec { ev: Ev::PeIn { uid, kind, .. }, .. }) = tr.get(i) else { unreachable!() };
                let (euid, ekind) = msg.unwrap();
                if *uid != euid || *kind != ekind {
                    info.violate(Violation::new("C14", "incoming-content", format!(
                        "module {m}: element {pid} saw message {uid:#x} kind {kind}, the previous element passed on {euid:#x} kind {ekind}")));
                    return;
                }
                i += 1;
                if pspec.send_hook == 2 && matches!(tr.get(i), Some(Rec { m: rm, ev: Ev::Offer { .. }, .. }) if *rm as usize == m) {
                    i += 1;
                }
                if pspec.mode == 5 && matches!(tr.get(i), Some(Rec { m: rm, ev: Ev::ShutdownReq { .. }, .. }) if *rm as usize == m) {
                    i += 1;
                    info.probe("element_requested_shutdown");
                }
                if ekind < SELF_KIND {
                    match pspec.mode {
                        1 => msg = Some((euid, ekind.wrapping_add(1) & 0x0fff)),
                        2 => {
                            let mm = pspec.m.max(1);
                            if euid % mm == pspec.r % mm {
                                consumed = true;
                                any_consume = true;
                                info.probe("message_consumed_by_element");
                            }
                        }
                        _ => {}
                    }
                }
            }
        }
        // handler part: records of this module until the first PeEnd
        let mut handler_recs = 0;
        let mut handler_kind_ok = true;
        let mut saw_handler = false;
        while let Some(r) = tr.get(i) {
            if matches!(r.ev, Ev::PeEnd { .. }) {
                break;
            }
            if r.m as usize != m {
                info.violate(Violation::new("C14", "interleave", format!(
                    "a record of module {} appears inside an event bracket of module {m} (trace #{i})", r.m)));
                return;
            }
            match &r.ev {
                Ev::PeStart { .. } | Ev::PeIn { .. } => {
                    info.violate(Violation::new("C14", "interleave", format!("module {m}: a new bracket starts at trace #{i} before the previous one was closed")));
                    return;
                }
                Ev::Recv { uid, kind, .. } => {
                    saw_handler = true;
                    if let Some((euid, ekind)) = msg {
                        if *uid != euid || (*kind != ekind) {
                            handler_kind_ok = false;
                        }
                    }
                }
                Ev::Beat { .. } | Ev::Start { .. } | Ev::End { .. } => {
                    if saw_handler {
                        info.violate(Violation::new("C14", "two-events-one-bracket", format!(
                            "module {m}: a second module event ({:?}) runs inside the bracket opened at trace #{start_i} - every event gets its own event_start / event_end", r.ev)));
                        return;
                    }
                    saw_handler = true;
                }
                _ => {}
            }
            handler_recs += 1;
            i += 1;
        }
        let _ = handler_recs;
        if has_msg && consumed && saw_handler {
            info.violate(Violation::new("C14", "handler-after-consume", format!("module {m}: the handler ran although an element consumed message {:#x}", msg.unwrap().0)));
            return;
        }
        if has_msg && !consumed && !saw_handler {
            info.violate(Violation::new("C14", "handler-skipped", format!("module {m}: message {:#x} was consumed by no element but the handler did not run", msg.unwrap().0)));
            return;
        }
        if !handler_kind_ok {
            info.violate(Violation::new("C14", "handler-content", format!("module {m}: the handler did not receive the message as the last element passed it on ({:?})", msg)));
            return;
        }
        if !has_msg {
            any_nonmsg = true;
        }
        if !has_msg && !saw_handler && tr.get(i).map_or(false, |r| r.seq < first_activity) && res.ok.is_some() {
            info.violate(Violation::new("C14", "empty-bracket", format!(
                "module {m}: the elements were given an event_start / event_end bracket (opened at trace #{start_i}) during start-up that contains no start-up call of the module")));
            return;
        }
        // downstream: reverse order
        for (k, (pid, pspec)) in stack.iter().enumerate().rev() {
            match tr.get(i) {
                Some(Rec { m: rm, ev: Ev::PeEnd { pe }, .. }) if *rm as usize == m && pe == pid => i += 1,
                other => {
                    info.violate(Violation::new("C14", "event-end", format!(
                        "module {m}: expected event_end of element {pid} (position {k}) at trace #{i}, found {:?} (bracket opened at #{start_i})", other.map(|r| (&r.m, &r.ev)))));
                    return;
                }
            }
            if pspec.send_hook == 3 && matches!(tr.get(i), Some(Rec { m: rm, ev: Ev::Offer { .. }, .. }) if *rm as usize == m) {
                i += 1;
            }
        }
        info.probe("bracket_checked");
    }
    // program order of emissions: over channel-free links, messages offered (without delay) arrive in offer order
    let graph = build_graph(prog);
    let mut first_seen: BTreeMap<u32, u32> = BTreeMap::new();
    for r in tr {
        match &r.ev {
            Ev::PeIn { uid, kind, .. } | Ev::Recv { uid, kind, .. } if *kind < SELF_KIND => {
                first_seen.entry(*uid).or_insert(r.seq);
            }
            _ => {}
        }
    }
    // messages emitted by one module at one instant with the same delay reach the event set in program order
    let mut last: BTreeMap<(usize, u64, u64), (u32, u32)> = BTreeMap::new(); // (module, send instant, delay): (offer uid, arrival seq)
    for r in tr {
        if let Ev::Offer { uid, gate, delay_ns, .. } = &r.ev {
            let hops = graph.walk((r.m as usize, *gate as usize));
            if hops.iter().any(|h| h.1.is_some()) {
                continue;
            }
            let Some(arr) = first_seen.get(uid) else { continue };
            let key = (r.m as usize, r.t, *delay_ns);
            if let Some((puid, pseq)) = last.get(&key) {
                if arr < pseq {
                    info.violate(Violation::new("C14", "emission-order", format!(
                        "message {uid:#x} was emitted after {puid:#x} by module {} at {} ns (both with delay {delay_ns} ns) but reached its destination first", r.m, r.t)));
                    return;
                }
            }
            last.insert(key, (*uid, *arr));
        }
    }
    // what an element or a callback emits during an event is emitted: a zero-delay message over a channel-free link to
    // a module that never goes down reaches it (whatever event kind the sender was in: message, wake-up, start-up of a
    // restart); emissions of the tear-down brackets at the end of the simulation are exempt
    if res.ok.map_or(false, |o| o.2 == 0) {
        let nmod = prog.modules.len();
        let goes_down: Vec<bool> = (0..nmod).map(|m| tr.iter().any(|r| r.m as usize == m && matches!(r.ev, Ev::ShutdownReq { .. } | Ev::PanicNow))).collect();
        let max_stack = (0..nmod).map(|m| stack_of(prog, m).len()).max().unwrap_or(0) as u32;
        let first_end = tr.iter().find(|r| matches!(r.ev, Ev::End { .. })).map_or(u32::MAX, |r| r.seq.saturating_sub(2 * max_stack + 2));
        // a sender is down from the end of the event in which it asked for its shutdown until the start-up callback of its restart
        // (the elements' event_start hooks of that restart event run before it), and for good after a panic
        let mut down = vec![false; nmod];
        let mut dead = vec![false; nmod];
        for r in tr {
            match &r.ev {
                // (the shutdown takes effect at the end of the requesting event - the recorded reset; what the module
                // still emits in that event after the request is emitted)
                Ev::Reset { .. } => down[r.m as usize] = true,
                Ev::PanicNow => dead[r.m as usize] = true,
                Ev::Start { .. } => down[r.m as usize] = false,
                _ => {}
            }
            if let Ev::Offer { uid, gate, delay_ns: 0, .. } = &r.ev {
                if r.seq >= first_end {
                    break;
                }
                if down[r.m as usize] || dead[r.m as usize] {
                    continue;
                }
                let hops = graph.walk((r.m as usize, *gate as usize));
                if hops.is_empty() || hops.iter().any(|h| h.1.is_some()) {
                    continue;
                }
                if hops.iter().any(|h| goes_down[h.0 .0]) {
                    continue;
                }
                info.probe("emission_delivery_checked");
                if !first_seen.contains_key(uid) {
                    info.violate(Violation::new("C14", "emission-lost", format!(
                        "message {uid:#x} emitted by module {} at {} ns over a channel-free link to a module that never goes down was never seen there", r.m, r.t)));
                    return;
                }
            }
        }
    }
    info.events += res.ok.map_or(0, |o| o.1 as u64);
    info.nontrivial = deep_stack && any_consume && any_nonmsg;
}

// ---------------------------------------------------------------- C03 (net level)

#[derive(Clone, Debug, PartialEq, Eq)]
enum NEv {
    Beat { m: usize, i: usize },
    Data { m: usize, uid: u32 },
    Exit { from: G, uid: u32 },
}

struct NPend {
    time: u64,
    seq: u64,
    zero: bool,
    ev: NEv,
}

/// Reference DES of the net layer for channel-free, fault-free, task-free models: every handler buffers the events
/// it emits in program order, the buffer is flushed after the handler, and the future event set follows the tie rule
/// of the property (events scheduled for the current instant first, FIFO; otherwise by timestamp, then scheduling order).
/// Reference DES of the net layer for channel-free, restart-free models: the deliveries (module, beat | uid, time) in the
/// order the scheduling history fixes, whether a module died on the way, the largest tie group.
fn net_reference(prog: &NetProgram, res: &NetResult, info: &mut RunInfo) -> (Vec<(usize, u32, u64)>, Vec<bool>, usize) {
    let graph = build_graph(prog);
    let mut pend: Vec<NPend> = Vec::new();
    let mut seq = 0u64;
    let mut instant = 0u64;
    let mut sched = |pend: &mut Vec<NPend>, instant: u64, time: u64, ev: NEv| {
        pend.push(NPend { time, seq, zero: time == instant, ev });
        seq += 1;
    };
    // start-up: modules in creation order (all top level in these scenarios), stage 0 schedules the beats
    for &m in &res.build.order {
        let spec = &prog.modules[m];
        if spec.chained {
            if let Some(b) = spec.beats.first() {
                sched(&mut pend, instant, b.at_ns, NEv::Beat { m, i: 0 });
            }
        } else {
            for (i, b) in spec.beats.iter().enumerate() {
                sched(&mut pend, instant, b.at_ns, NEv::Beat { m, i });
            }
        }
    }
    let mut expect: Vec<(usize, u32, u64)> = Vec::new(); // (module, beat index | uid, time); beats are tagged with bit 31
    // a module whose handler panicked (caught by its stereotype) handles nothing any more; what it emitted before the panic
    // in that handler was emitted
    let mut dead = vec![false; prog.modules.len()];
    let mut guard = 0;
    let mut biggest_tie = 0usize;
    while !pend.is_empty() && guard < 100_000 {
        guard += 1;
        let idx = if let Some((i, _)) = pend.iter().enumerate().filter(|(_, p)| p.zero).min_by_key(|(_, p)| p.seq) {
            i
        } else {
            pend.iter().enumerate().min_by_key(|(_, p)| (p.time, p.seq)).map(|(i, _)| i).unwrap()
        };
        let tie = pend.iter().filter(|p| p.time == pend[idx].time).count();
        biggest_tie = biggest_tie.max(tie);
        let p = pend.remove(idx);
        instant = p.time;
        let now = p.time;
        match p.ev {
            NEv::Exit { from, uid } => {
                let hops = graph.walk(from);
                let dest = hops.last().map_or(from, |h| h.0);
                if dead[from.0] || dead[dest.0] {
                    continue;
                }
                sched(&mut pend, instant, now, NEv::Data { m: dest.0, uid });
            }
            NEv::Data { m, uid } => {
                if !dead[m] {
                    expect.push((m, uid, now));
                }
            }
            NEv::Beat { m, i } => {
                if dead[m] {
                    continue;
                }
                expect.push((m, 0x8000_0000 | i as u32, now));
                let spec = &prog.modules[m];
                let mut buffer: Vec<(u64, NEv)> = Vec::new();
                if spec.chained && i + 1 < spec.beats.len() {
                    let d = spec.beats[i + 1].at_ns.saturating_sub(spec.beats[i].at_ns);
                    buffer.push((now + d, NEv::Beat { m, i: i + 1 }));
                }
                let nflat = flat_gates(spec).len();
                let mut dying = false;
                for (ai, a) in spec.beats[i].acts.iter().enumerate() {
                    match a {
                        Act::Send { gate, delay_ns, .. } => {
                            if nflat == 0 {
                                continue;
                            }
                            let from: G = (m, *gate as usize % nflat);
                            if graph.degree(from) == 2 {
                                continue;
                            }
                            let uid = uid_of(m, i, ai, 0);
                            if *delay_ns == 0 {
                                let hops = graph.walk(from);
                                let dest = hops.last().map_or(from, |h| h.0);
                                if !dead[dest.0] {
                                    buffer.push((now, NEv::Data { m: dest.0, uid }));
                                }
                            } else {
                                buffer.push((now + delay_ns, NEv::Exit { from, uid }));
                            }
                        }
                        Act::SelfMsg { delay_ns } => {
                            buffer.push((now + delay_ns, NEv::Data { m, uid: uid_of(m, i, ai, 0) }));
                        }
                        Act::Panic => {
                            dead[m] = true;
                            info.probe("handler_panicked_after_emitting");
                            break;
                        }
                        // a shutdown (for good) takes effect at the end of the event: what the handler emits before and
                        // after the request is emitted, in program order
                        Act::Shutdown { restart, .. } if *restart < 0 => {
                            dying = true;
                            info.probe("handler_shut_its_module_down_while_emitting");
                        }
                        _ => {}
                    }
                }
                if dying {
                    dead[m] = true;
                }
                for (t, ev) in buffer {
                    sched(&mut pend, instant, t, ev);
                }
            }
        }
    }
    (expect, dead, biggest_tie)
}

/// C02 at the net layer: emitting a message for a past instant is rejected, handlers never see the clock go back, and
/// every message is handled at exactly the instant it was sent / scheduled for.
pub fn check_c02_net(prog: &NetProgram, res: &NetResult, info: &mut RunInfo) {
    let prog = &normalise(prog);
    for r in &res.trace {
        if let Ev::PastSend { uid, mode, back_ns, accepted } = &r.ev {
            info.probe("message_for_a_past_instant_attempted");
            if *accepted {
                info.violate(Violation::new("C02", "past-send-accepted", format!(
                    "module {} at {} ns: {}(message {uid:#x}, {back_ns} ns before the current simulated time) was accepted",
                    r.m, r.t, if *mode == 0 { "send_at" } else { "schedule_at" })));
                return;
            }
        }
    }
    if let Some(w) = res.trace.windows(2).find(|w| w[1].t < w[0].t) {
        info.violate(Violation::new("C02", "clock-regress-net", format!(
            "user code of module {} saw the clock at {} ns after user code of module {} had seen {} ns", w[1].m, w[1].t, w[0].m, w[0].t)));
        return;
    }
    if res.escaped_panic.is_some() || res.ok.is_none() {
        return;
    }
    let (expect, _dead, _) = net_reference(prog, res, info);
    let mut want: std::collections::BTreeMap<(usize, u32), Vec<u64>> = std::collections::BTreeMap::new();
    for (m, id, t) in &expect {
        want.entry((*m, *id)).or_default().push(*t);
    }
    let mut got: std::collections::BTreeMap<(usize, u32), Vec<u64>> = std::collections::BTreeMap::new();
    for r in &res.trace {
        match &r.ev {
            Ev::Beat { i, .. } => got.entry((r.m as usize, 0x8000_0000 | u32::from(*i))).or_default().push(r.t),
            Ev::Recv { uid, .. } => got.entry((r.m as usize, *uid)).or_default().push(r.t),
            _ => {}
        }
    }
    // which events run at all is not this property's statement
    if want.keys().ne(got.keys()) || want.iter().any(|(k, v)| v.len() != got[k].len()) {
        return;
    }
    for (k, v) in &want {
        if let Some(pos) = v.iter().zip(got[k].iter()).position(|(a, b)| a != b) {
            info.violate(Violation::new("C02", "handler-clock-net", format!(
                "module {} handled {:#x} with the clock at {} ns, it was sent / scheduled for {} ns", k.0, k.1, got[k][pos], v[pos])));
            return;
        }
    }
    info.probe("net_handler_clock_checked");
    info.events += res.ok.map_or(0, |o| o.1 as u64);
    info.nontrivial = true;
}

pub fn check_c03_net(prog: &NetProgram, res: &NetResult, info: &mut RunInfo) {
    let prog = &normalise(prog);
    if res.escaped_panic.is_some() || res.ok.is_none() {
        return;
    }
    let (expect, dead, biggest_tie) = net_reference(prog, res, info);
    let got: Vec<(usize, u32, u64)> = res
        .trace
        .iter()
        .filter_map(|r| match &r.ev {
            Ev::Beat { i, .. } => Some((r.m as usize, 0x8000_0000 | u32::from(*i), r.t)),
            Ev::Recv { uid, .. } => Some((r.m as usize, *uid, r.t)),
            _ => None,
        })
        .collect();
    // which events run at all, and when, is not this property's statement
    let mut a = expect.clone();
    let mut b = got.clone();
    a.sort_unstable();
    b.sort_unstable();
    if a != b {
        if dead.iter().any(|d| *d) {
            info.probe("net_model_and_run_disagree_on_what_ran_after_a_panic");
        }
        return;
    }
    if dead.iter().any(|d| *d) {
        info.probe("tie_order_checked_after_a_caught_panic");
    }
    if let Some(pos) = got.iter().zip(expect.iter()).position(|(g, e)| g != e) {
        info.violate(Violation::new("C03", "tie-order-net", format!(
            "delivery #{pos}: module {} handled {:#x} at {} ns where the scheduling history ranks {:#x} (module {}) first",
            got[pos].0, got[pos].1, got[pos].2, expect[pos].1, expect[pos].0)));
        return;
    }
    info.probe_n("net_tie_group_max", biggest_tie as u64);
    info.events += res.ok.map_or(0, |o| o.1 as u64);
    info.nontrivial = biggest_tie >= 2;
}

// ---------------------------------------------------------------- C16

pub fn check_c16(prog: &NetProgram, res: &NetResult, info: &mut RunInfo) {
    let prog = &normalise(prog);
    if let Some(e) = &res.escaped_panic {
        info.violate(Violation::new("C16", "panic", format!("building or running the model panicked: {e}")));
        return;
    }
    for (k, v) in &res.ledger.ops {
        info.probe_n(k, *v);
    }
    if let Some((rule, msg)) = res.ledger.errors.first() {
        info.violate(Violation::new("C16", rule, msg.clone()));
        return;
    }
    // every stored value dropped exactly once (only tokens that live in message bodies are this property's business)
    let is_body = |uid: u32| uid < crate::bodies::TOKEN_TASK;
    if let Some((tid, uid)) = res.ledger.double.iter().find(|(_, u)| is_body(*u)) {
        info.violate(Violation::new("C16", "body-double-drop", format!("a value stored in message {uid:#x} was dropped more than once (token {tid})")));
        return;
    }
    if let Some((tid, uid)) = res.ledger.leaked.iter().find(|(_, u)| is_body(*u)) {
        let queued = 0;
        info.violate(Violation::new("C16", "body-leak", format!(
            "a value stored in message {uid:#x} was never dropped although the simulation is gone (token {tid})")).fact("queued", queued));
        return;
    }
    if res.ledger.zst_created != res.ledger.zst_dropped {
        info.violate(Violation::new("C16", if res.ledger.zst_dropped < res.ledger.zst_created { "body-leak" } else { "body-double-drop" }, format!(
            "{} zero-sized body values with a destructor were created, {} destructor calls happened", res.ledger.zst_created, res.ledger.zst_dropped)));
        return;
    }
    // the size channels charge for is header + declared body length
    let graph = build_graph(prog);
    let mut arrivals: BTreeMap<u32, u64> = BTreeMap::new();
    for r in &res.trace {
        if let Ev::Recv { uid, .. } = &r.ev {
            arrivals.entry(*uid).or_insert(r.t);
        }
    }
    let mut lost = 0u64;
    // per sending gate: the last message an idle channel accepted (time, length)
    let mut accepted: BTreeMap<(usize, usize), (u64, usize, u32)> = BTreeMap::new();
    for r in &res.trace {
        if let Ev::Offer { uid, gate, busy, has_chan, delay_ns: 0, len, fin_ns } = &r.ev {
            let (sm, _, site, ai) = uid_parts(*uid);
            let Some(exp_len) = expected_len_uid(prog, sm, site, ai, *uid) else { continue };
            if *len as usize != exp_len {
                info.violate(Violation::new("C16", "length", format!(
                    "message {uid:#x} reports length {len} when offered, 64-byte header + declared body length = {exp_len}")));
                return;
            }
            let from = (r.m as usize, *gate as usize);
            let hops = graph.walk(from);
            if hops.len() == 1 && *has_chan && !*busy {
                if let Some(ch) = &hops[0].1 {
                    if let Some(t) = arrivals.get(uid) {
                        let exp = r.t + busy_ns(exp_len, ch.bitrate) + ch.latency_ns;
                        info.probe("length_vs_channel_time_checked");
                        if *t + 2 < exp || *t > exp + ch.jitter_ns + 2 {
                            info.violate(Violation::new("C16", "charged-size", format!(
                                "message {uid:#x} of length {exp_len} arrived after {} ns over an idle channel; (64 + declared)*8/bitrate + latency = {} ns (jitter bound {} ns)", t - r.t, exp - r.t, ch.jitter_ns)));
                            return;
                        }
                    }
                }
            }
            // the time the channel stays occupied is the charged size over the bitrate, whatever the jitter: with the
            // Drop policy the transmission a busy channel reports is the one of the last message it accepted
            if hops.len() == 1 && *has_chan {
                if let Some(ch) = &hops[0].1 {
                    if ch.queue == -2 && ch.bitrate > 0 {
                        if *busy {
                            if let Some((t0, l0, u0)) = accepted.get(&from) {
                                let exp = t0 + busy_ns(*l0, ch.bitrate);
                                if r.t <= exp {
                                    info.probe("busy_period_vs_length_checked");
                                    if fin_ns.abs_diff(exp) > 2 {
                                        info.violate(Violation::new("C16", "charged-size", format!(
                                            "channel of gate {from:?} is occupied until {fin_ns} ns by message {u0:#x} of length {l0} accepted at {t0} ns; (64 + declared)*8/bitrate gives {exp} ns")));
                                        return;
                                    }
                                }
                            }
                        } else {
                            accepted.insert(from, (r.t, exp_len, *uid));
                        }
                    }
                }
            }
            if !arrivals.contains_key(uid) {
                lost += 1;
            }
        }
    }
    info.probe_n("message_lost_to_fault", lost);
    let o = &res.ledger.ops;
    info.nontrivial = (o.get("try_clone").copied().unwrap_or(0) + o.get("clone").copied().unwrap_or(0)) > 0 && o.get("failed_cast").copied().unwrap_or(0) > 0 && lost > 0;
    info.events += res.ok.map_or(0, |o| o.1 as u64);
}

pub fn expected_len_uid(prog: &NetProgram, m: usize, site: usize, ai: usize, uid: u32) -> Option<usize> {
    let spec = prog.modules.get(m)?;
    let act = if site >= PE_SITE_BASE {
        return Some(64);
    } else if site == START_SITE {
        spec.start_acts.get(ai)?
    } else if site == END_SITE {
        spec.end_acts.get(ai)?
    } else if site >= RX_SITE_BASE {
        &spec.rx.get(site - RX_SITE_BASE)?.act
    } else {
        spec.beats.get(site)?.acts.get(ai)?
    };
    match act {
        Act::Send { body, .. } => Some(64 + crate::bodies::declared_len_uid(*body, uid)),
        _ => None,
    }
}

// ---------------------------------------------------------------- C20

pub fn check_c20(prog: &NetProgram, res: &NetResult, stop: &str, info: &mut RunInfo) -> bool {
    // a panic in a processing element is not contained by the module harness: it unwinds out of run() by design.
    // That is one more way for a simulation to end; everything must still be released.
    let pe_panics = prog.gstack.iter().chain(prog.modules.iter().flat_map(|m| m.pes.iter())).any(|p| p.mode == 4);
    if res.escaped_panic.is_some() && pe_panics {
        info.probe("ended_by_panic_unwinding_out_of_run");
    } else if let Some(e) = &res.escaped_panic {
        info.violate(Violation::new("C20", "panic", format!("building, running or dropping the model panicked ({stop}): {e}")));
        return false;
    }
    if res.foreign {
        info.violate(Violation::new("C20", "earlier-simulation-still-acting", format!(
            "user code (module or element) of an earlier, dropped simulation of this process ran inside this simulation ({stop})")));
        return false;
    }
    let kind = |uid: u32| match uid {
        crate::bodies::TOKEN_MODULE => "module state".to_string(),
        crate::bodies::TOKEN_PE => "processing element".to_string(),
        crate::bodies::TOKEN_TASK => "state captured by a task".to_string(),
        u => format!("body of message {u:#x}"),
    };
    if let Some((tid, uid)) = res.ledger.double.first() {
        info.violate(Violation::new("C20", "double-drop", format!("{} was dropped more than once (token {tid}; {stop})", kind(*uid))));
        return false;
    }
    if let Some((tid, uid)) = res.ledger.leaked.first() {
        let what = match *uid {
            crate::bodies::TOKEN_MODULE => 1,
            crate::bodies::TOKEN_PE => 2,
            crate::bodies::TOKEN_TASK => 3,
            _ => 0,
        };
        info.violate(Violation::new("C20", "leak", format!(
            "{} is still alive after the simulation was dropped (token {tid}; {stop}; {} tokens leaked in total)", kind(*uid), res.ledger.leaked.len()))
            .fact("what", what));
        return false;
    }
    true
}

// ---------------------------------------------------------------- C13

pub fn check_c13(prog: &NetProgram, faulty: &NetResult, twin: &NetResult, info: &mut RunInfo) {
    let prog = &normalise(prog);
    if let Some(e) = &faulty.escaped_panic {
        info.violate(Violation::new("C13", "simulator-aborted", format!("a module panic escaped the simulator: {e}")));
        return;
    }
    if twin.escaped_panic.is_some() || !faulty.started {
        return;
    }
    let nmod = prog.modules.len();
    // victims: modules with a PanicNow record
    let mut panic_seq: Vec<Option<u32>> = vec![None; nmod];
    for r in &faulty.trace {
        if matches!(r.ev, Ev::PanicNow) && panic_seq[r.m as usize].is_none() {
            panic_seq[r.m as usize] = Some(r.seq);
        }
    }
    let victims: Vec<usize> = (0..nmod).filter(|m| panic_seq[*m].is_some()).collect();
    info.probe_n("module_panicked", victims.len() as u64);
    // what happens to a victim's own delayed sends that are still waiting to leave is not defined by
    // "merely fallen silent" (des drops them at their exit time): such programs are not judged
    let delayed_from_victim = victims.iter().any(|v| {
        let sp = &prog.modules[*v];
        sp.beats.iter().flat_map(|b| b.acts.iter()).chain(sp.rx.iter().map(|r| &r.act)).any(|a| matches!(a, Act::Send { delay_ns, .. } if *delay_ns > 0))
    });
    if delayed_from_victim {
        return;
    }
    // healthy modules: exactly what they would have seen had the faulty modules merely fallen silent
    // (the instant of at_sim_end is the end of the whole run, which depends on what the silent twin still has scheduled:
    // tear-down records are not part of "the messages and wake-ups a module receives")
    // whether a healthy module is torn down at all is compared, the instant is not
    let sub = |res: &NetResult, m: usize| -> Vec<(u64, Ev)> {
        res.trace.iter().filter(|r| r.m as usize == m).map(|r| (if matches!(r.ev, Ev::End { .. }) { 0 } else { r.t }, r.ev.clone())).collect()
    };
    let mut healthy_busy = false;
    for m in 0..nmod {
        if panic_seq[m].is_some() {
            continue;
        }
        let a = sub(faulty, m);
        let b = sub(twin, m);
        if a != b {
            let pos = a.iter().zip(b.iter()).position(|(x, y)| x != y).unwrap_or(a.len().min(b.len()));
            info.violate(Violation::new("C13", "healthy-module-disturbed", format!(
                "module {} ({}) differs from the run in which the faulty modules merely fall silent, at its record #{pos}: {:?} vs {:?}",
                m, module_path(prog, m), a.get(pos), b.get(pos))));
            return;
        }
        if let Some(first_panic) = victims.iter().filter_map(|v| panic_seq[*v]).min() {
            if faulty.trace.iter().any(|r| r.m as usize == m && r.seq > first_panic && matches!(r.ev, Ev::Recv { .. } | Ev::Beat { .. } | Ev::Task { .. })) {
                healthy_busy = true;
            }
        }
    }
    // a panic inside a joined task is contained by tokio: the module itself is not deactivated by des;
    // for those only non-abort, attribution and isolation are demanded
    let task_victim = |v: usize| prog.modules[v].tasks.iter().any(|t| t.steps.iter().any(|s| matches!(s, crate::asy::AStep::Panic)));
    let callback_victim = |v: usize| {
        let sp = &prog.modules[v];
        sp.panic_at != 255 || sp.rx.iter().any(|r| matches!(r.act, Act::Panic)) || sp.beats.iter().any(|b| b.acts.iter().any(|a| matches!(a, Act::Panic)))
    };
    // victims: deactivated, no further messages or wake-ups
    let mut pending_after = false;
    for &v in &victims {
        if task_victim(v) {
            info.probe("joined_task_panicked");
            continue;
        }
        let ps = panic_seq[v].unwrap();
        let at_end = faulty.trace.iter().any(|r| r.seq == ps.saturating_sub(1) && r.m as usize == v && matches!(r.ev, Ev::End { .. }));
        if let Some(r) = faulty.trace.iter().find(|r| r.m as usize == v && r.seq > ps && matches!(r.ev, Ev::Recv { .. } | Ev::Beat { .. })) {
            info.violate(Violation::new("C13", "victim-still-running", format!(
                "module {} handled {:?} at {} ns after it had panicked", module_path(prog, v), r.ev, r.t)));
            return;
        }
        if !at_end && faulty.active_at_end.get(v).copied().unwrap_or(false) && faulty.ok.is_some() {
            info.violate(Violation::new("C13", "victim-active", format!("module {} still reports is_active() after its panic", module_path(prog, v))));
            return;
        }
        // did it have work pending? (the twin does not tell; look at offers addressed to it after the panic)
        let _ = &mut pending_after;
    }
    // error report: exactly the non-catching victims
    // modules that have both kinds of fault are not judged on the error list (which fault happens first decides)
    if victims.iter().any(|v| task_victim(*v) && callback_victim(*v)) {
        info.nontrivial = !victims.is_empty() && healthy_busy;
        return;
    }
    // the stereotype that counts is the one in force when the panic happens (a callback may change it before it panics)
    let catching_at_panic = |v: usize| -> bool {
        let sp = &prog.modules[v];
        let mut c = sp.catching;
        let mut beats: Vec<&Beat> = sp.beats.iter().collect();
        beats.sort_by_key(|b| b.at_ns);
        for b in beats {
            for a in &b.acts {
                match a {
                    Act::SetCatching { v } => c = *v,
                    Act::Panic => return c,
                    _ => {}
                }
            }
        }
        c
    };
    let sets_stereotype = |v: usize| prog.modules[v].beats.iter().any(|b| b.acts.iter().any(|a| matches!(a, Act::SetCatching { .. })));
    // (for victims that change their stereotype only the beat panic path is predicted)
    if victims.iter().any(|v| sets_stereotype(*v) && (prog.modules[*v].panic_at != 255 || prog.modules[*v].rx.iter().any(|r| matches!(r.act, Act::Panic)))) {
        info.nontrivial = !victims.is_empty() && healthy_busy;
        return;
    }
    let mut expect_err: Vec<String> = victims.iter().filter(|v| !task_victim(**v) && !catching_at_panic(**v)).map(|v| module_path(prog, *v)).collect();
    expect_err.sort();
    // joined tasks that panicked must be attributed to their module
    for &v in victims.iter().filter(|v| task_victim(**v)) {
        let joined = prog.modules[v].tasks.iter().any(|t| t.join != 0 && t.steps.iter().any(|s| matches!(s, crate::asy::AStep::Panic)));
        let reported = faulty.errors.iter().any(|(k, p)| k == "join-panic" && *p == module_path(prog, v));
        if joined && !reported {
            info.violate(Violation::new("C13", "task-panic-not-reported", format!(
                "a joined task of module {} panicked but run() does not report it (errors: {:?}, ok: {:?})", module_path(prog, v), faulty.errors, faulty.ok)));
            return;
        }
    }
    if let Some((_, p)) = faulty.errors.iter().find(|(k, p)| k == "join-panic" && !victims.iter().any(|v| task_victim(*v) && module_path(prog, *v) == *p)) {
        info.violate(Violation::new("C13", "error-set", format!("run() reports a panicked task of module {p}, where no task panicked")));
        return;
    }
    if expect_err.is_empty() && victims.iter().any(|v| task_victim(*v)) {
        // only task panics: the callback-panic list must be empty, nothing else to compare
        let got: Vec<&(String, String)> = faulty.errors.iter().filter(|(k, _)| k == "panic").collect();
        if !got.is_empty() {
            info.violate(Violation::new("C13", "error-set", format!("run() reports callback panics {got:?} but no callback panicked")));
        }
        info.events += faulty.ok.map_or(0, |o| o.1 as u64);
        info.nontrivial = !victims.is_empty() && healthy_busy;
        return;
    }
    let mut got_err: Vec<String> = faulty.errors.iter().filter(|(k, _)| k == "panic").map(|(_, p)| p.clone()).collect();
    got_err.sort();
    got_err.dedup();
    if faulty.ok.is_some() && !expect_err.is_empty() {
        info.violate(Violation::new("C13", "error-missing", format!("run() returned Ok although modules {expect_err:?} panicked without a catching stereotype")));
        return;
    }
    if faulty.ok.is_none() && got_err != expect_err {
        info.violate(Violation::new("C13", "error-set", format!("run() reports panics of {got_err:?}, the modules that panicked (non-catching) are {expect_err:?}; all errors: {:?}", faulty.errors)));
        return;
    }
    info.events += faulty.ok.map_or(0, |o| o.1 as u64);
    info.nontrivial = !victims.is_empty() && healthy_busy;
}

// ---------------------------------------------------------------- C09

#[derive(Debug, Clone)]
struct Down {
    /// time of the requesting event
    from_t: u64,
    /// seq of the Reset record (end of the requesting event)
    reset_seq: u32,
    /// restart instant, None = never
    until_t: Option<u64>,
    /// seq of the first Start record of the new incarnation
    start_seq: Option<u32>,
}

#[allow(clippy::too_many_lines)]
pub fn check_c09(prog: &NetProgram, res: &NetResult, info: &mut RunInfo) {
    let prog = &normalise(prog);
    if let Some(e) = &res.escaped_panic {
        info.violate(Violation::new("C09", "panic", format!("building or running the model panicked: {e}")));
        return;
    }
    if res.ok.is_none() {
        // expected errors: unfinished joined tasks, and the panic of a module whose reset() is scripted to panic
        let expected = |k: &str, p: &str| k == "join-not-finished" || (k == "panic" && prog.modules.iter().enumerate().any(|(m, sp)| (sp.reset_panics || sp.crash_reboot) && module_path(prog, m) == p));
        if res.started && !res.errors.iter().all(|(k, p)| expected(k, p)) {
            if res.errors.iter().any(|(k, _)| k == "join-tokio") {
                // a joined task that tokio reports as cancelled belongs to an incarnation that was shut down
                info.violate(Violation::new("C09", "old-incarnation-joined", format!(
                    "the run ended with errors {:?}: a task of an incarnation that was shut down was joined at the end of the simulation", res.errors)));
            } else {
                info.violate(Violation::new("C09", "run-error", format!("run without panics returned errors {:?}", res.errors)));
            }
        }
        if !res.errors.iter().all(|(k, p)| expected(k, p)) {
            return;
        }
    }
    let nmod = prog.modules.len();
    let tr = &res.trace;
    // downtime intervals per module, from the requests in the trace
    let mut downs: Vec<Vec<Down>> = vec![Vec::new(); nmod];
    for m in 0..nmod {
        let recs: Vec<&Rec> = tr.iter().filter(|r| r.m as usize == m).collect();
        let mut i = 0;
        while i < recs.len() {
            if let Ev::ShutdownReq { .. } = recs[i].ev {
                // all requests of this event: up to the Reset record; the last one wins
                let t = recs[i].t;
                let mut last_restart = -1i64;
                let mut j = i;
                let mut reset_at: Option<usize> = None;
                while j < recs.len() {
                    match &recs[j].ev {
                        Ev::ShutdownReq { restart } => last_restart = *restart,
                        Ev::Reset { .. } => {
                            reset_at = Some(j);
                            break;
                        }
                        _ => {}
                    }
                    if recs[j].t != t {
                        break;
                    }
                    j += 1;
                }
                let Some(rj) = reset_at else {
                    info.violate(Violation::new("C09", "no-reset", format!("module {} requested shutdown at {t} ns but was never reset", module_path(prog, m))));
                    return;
                };
                if recs[rj].t != t {
                    info.violate(Violation::new("C09", "late-reset", format!("module {} requested shutdown at {t} ns, reset ran at {} ns", module_path(prog, m), recs[rj].t)));
                    return;
                }
                // the shutdown takes effect at the end of the requesting event: no other module runs in between
                if let Some(x) = tr.iter().find(|r| r.seq > recs[i].seq && r.seq < recs[rj].seq && r.m as usize != m) {
                    info.violate(Violation::new("C09", "late-reset", format!(
                        "module {} requested shutdown at {t} ns, but module {} ran ({:?}) before the shutdown was carried out", module_path(prog, m), module_path(prog, x.m as usize), x.ev)));
                    return;
                }
                let until_t = if last_restart >= 0 { Some(t + last_restart as u64) } else { None };
                downs[m].push(Down { from_t: t, reset_seq: recs[rj].seq, until_t, start_seq: None });
                i = rj + 1;
                continue;
            }
            i += 1;
        }
        // exactly one reset per requesting event
        let resets = recs.iter().filter(|r| matches!(r.ev, Ev::Reset { .. })).count();
        if resets != downs[m].len() {
            info.violate(Violation::new("C09", "reset-count", format!("module {} was reset {resets} times for {} shutdown requests", module_path(prog, m), downs[m].len())));
            return;
        }
    }
    // behaviour of every victim inside / at the end of its downtime
    for m in 0..nmod {
        let stages = eff_stages(&prog.modules[m]);
        let recs: Vec<&Rec> = tr.iter().filter(|r| r.m as usize == m).collect();
        let dcount = downs[m].len();
        for di in 0..dcount {
            let d = downs[m][di].clone();
            let next_from = downs[m].get(di + 1).map(|x| x.reset_seq);
            // records after the reset, up to the next reset
            let after: Vec<&&Rec> = recs.iter().filter(|r| r.seq > d.reset_seq && next_from.map_or(true, |n| r.seq <= n)).collect();
            let mut started_stages: Vec<u8> = Vec::new();
            let mut first_start: Option<u32> = None;
            let mut seen_stage0 = false;
            for r in &after {
                // start-up stages > 0 of the initial simulation start (time 0) are still called on a module that shut down
                // in an earlier stage, before its restart begins with stage 0; the property speaks about handlers, tasks and
                // timers, so this is not judged
                if matches!(r.ev, Ev::Start { stage: 0, .. }) {
                    seen_stage0 = true;
                }
                if matches!(r.ev, Ev::Start { stage, .. } if stage > 0) && !seen_stage0 && d.from_t == 0 && r.t == 0 {
                    continue;
                }
                // (a processing element that is handed a message is part of the module's message handling)
                let user_code = matches!(r.ev, Ev::Recv { .. } | Ev::Beat { .. } | Ev::Task { .. } | Ev::Start { .. } | Ev::Offer { .. } | Ev::PeIn { .. });
                if matches!(r.ev, Ev::End { .. }) {
                    continue;
                }
                let inside = d.until_t.map_or(true, |u| r.t < u);
                if user_code && inside {
                    info.violate(Violation::new("C09", "ran-while-down", format!(
                        "module {} is shut down from {} ns until {:?} but ran {:?} at {} ns", module_path(prog, m), d.from_t, d.until_t, r.ev, r.t)));
                    return;
                }
                if let Ev::Task { inc, .. } = &r.ev {
                    if *inc as usize <= di {
                        info.violate(Violation::new("C09", "old-incarnation", format!(
                            "a task of incarnation {inc} of module {} ran at {} ns, after the module was reset", module_path(prog, m), r.t)));
                        return;
                    }
                }
                if let Ev::Start { stage, .. } = &r.ev {
                    if first_start.is_none() {
                        first_start = Some(r.seq);
                    }
                    if Some(r.t) != d.until_t {
                        info.violate(Violation::new("C09", "restart-time", format!(
                            "module {} restarted (stage {stage}) at {} ns, requested restart time {:?}", module_path(prog, m), r.t, d.until_t)));
                        return;
                    }
                    started_stages.push(*stage);
                } else if user_code && first_start.is_none() && stages > 0 {
                    // user code of the new incarnation before its start-up ran
                    if let Some(u) = d.until_t {
                        if r.t >= u {
                            // at the restart instant an event may be dispatched before the restart event (tie): it is then ignored
                            // by the inactive module and leaves no record; a record here means user code ran before at_sim_start
                            info.violate(Violation::new("C09", "ran-before-restart", format!(
                                "module {} ran {:?} at {} ns before its start-up stages of the restart at {u} ns", module_path(prog, m), r.ev, r.t)));
                            return;
                        }
                    }
                }
            }
            if d.until_t.is_some() {
                let expect: Vec<u8> = (0..stages).collect();
                let limit_stopped = res.ok.map_or(false, |o| o.2 > 0);
                if started_stages != expect && !(limit_stopped && started_stages.is_empty()) {
                    info.violate(Violation::new("C09", "restart-stages", format!(
                        "module {} restarted with start-up stages {started_stages:?}, expected each of {expect:?} exactly once (restart at {:?})", module_path(prog, m), d.until_t)));
                    return;
                }
                info.probe("restart_completed");
            } else if !started_stages.is_empty() {
                info.violate(Violation::new("C09", "restart-unrequested", format!("module {} restarted although no restart time was given", module_path(prog, m))));
                return;
            }
            downs[m][di].start_seq = first_start;
        }
    }
    // a module that panicked without asking for a shutdown in the same event is dead from then on in a way this
    // property does not describe (C13's subject): nothing about it is predicted after that instant
    let mut dead_from: Vec<Option<u64>> = vec![None; nmod];
    for (i, r) in tr.iter().enumerate() {
        if matches!(r.ev, Ev::PanicNow) {
            let m = r.m as usize;
            // covered by a shutdown request of the same event iff the module's next record is its reset
            let next = tr[i + 1..].iter().find(|x| x.m as usize == m);
            let covered = matches!(next, Some(Rec { ev: Ev::Reset { .. }, .. }));
            if !covered && dead_from[m].is_none() {
                dead_from[m] = Some(r.t);
            }
        }
    }
    // active(m, t): Some(true) strictly up, Some(false) strictly down, None on a boundary instant
    let status = |m: usize, t: u64| -> Option<bool> {
        if let Some(tp) = dead_from[m] {
            if t >= tp {
                return None;
            }
        }
        for d in &downs[m] {
            if t == d.from_t || Some(t) == d.until_t {
                return None;
            }
            if t > d.from_t && d.until_t.map_or(true, |u| t < u) {
                return Some(false);
            }
        }
        Some(true)
    };
    // messages: dropped iff some owner on the way is down when the message is at its gate
    let graph = build_graph(prog);
    let mut arrivals: BTreeMap<u32, Vec<(u64, usize)>> = BTreeMap::new();
    for r in tr {
        if let Ev::Recv { uid, kind, .. } = &r.ev {
            if *kind != SELF_KIND {
                arrivals.entry(*uid).or_default().push((r.t, r.m as usize));
            }
        }
    }
    let mut inside_hits = 0u64;
    let limit_stopped = res.ok.map_or(false, |o| o.2 > 0);
    let end_time = res.ok.map_or(0, |o| o.0);
    for r in tr {
        let Ev::Offer { uid, gate, len, delay_ns, busy, .. } = &r.ev else { continue };
        let from: G = (r.m as usize, *gate as usize);
        let hops = graph.walk(from);
        // only paths whose channels are idle by construction are predicted (busy behaviour is C07's)
        if *busy || hops.iter().any(|h| h.1.as_ref().map_or(false, |c| c.jitter_ns > 0 || c.bitrate > 0)) {
            // channels that can be busy are C07's subject; here only latency-only hops are predicted
            continue;
        }
        let mut t = r.t + delay_ns;
        // gates the message stands on, with the time it is there: sending gate, then every gate reached
        let mut certainly_dropped = false;
        let mut uncertain = false;
        let offer_seq = r.seq;
        let zero_class = *delay_ns == 0 && hops.iter().all(|h| h.1.is_none());
        let mut check = |m: usize, t: u64, last: bool, certainly_dropped: &mut bool, uncertain: &mut bool| match status(m, t) {
            Some(true) => {}
            Some(false) => *certainly_dropped = true,
            None => {
                // A module that restarts in the very instant of its shutdown (restart delay 0): its restart event is queued
                // for the current instant at the end of the requesting event. A message sent afterwards in that instant over a
                // channel-free path is queued behind it (events of the current instant run in scheduling order, C03), so the
                // module is up again when the message is handled.
                // (only the final receiver is looked at when the message is handled; gates left behind on the way are
                // checked inline at send time)
                // (only if this is the module's single shutdown of that instant - with repeated zero-delay cycles the
                // message may fall into a later downtime of the same instant)
                let after_zero_restart = last
                    && zero_class
                    && m != from.0
                    && downs[m].iter().filter(|d| d.from_t == t || d.until_t == Some(t)).count() == 1
                    && downs[m].iter().any(|d| d.from_t == t && d.until_t == Some(t) && offer_seq > d.reset_seq);
                if !after_zero_restart {
                    *uncertain = true;
                }
            }
        };
        // the sending gate is left behind at the (possibly delayed) send time
        if *delay_ns > 0 || !hops.is_empty() {
            if *delay_ns > 0 {
                check(from.0, t, false, &mut certainly_dropped, &mut uncertain);
            }
        }
        for (i, (g, ch)) in hops.iter().enumerate() {
            if let Some(c) = ch {
                t += busy_ns(*len as usize, c.bitrate) + c.latency_ns;
            }
            check(g.0, t, i + 1 == hops.len(), &mut certainly_dropped, &mut uncertain);
        }
        if hops.is_empty() {
            check(from.0, t, true, &mut certainly_dropped, &mut uncertain);
        }
        let dest = hops.last().map_or(from, |h| h.0).0;
        let arr = arrivals.get(uid).cloned().unwrap_or_default();
        if arr.len() > 1 {
            info.violate(Violation::new("C09", "duplicate", format!("message {uid:#x} was delivered {} times", arr.len())));
            return;
        }
        if certainly_dropped {
            inside_hits += 1;
            if !arr.is_empty() {
                info.violate(Violation::new("C09", "delivered-through-downtime", format!(
                    "message {uid:#x} (offered at {} ns) was delivered at {} ns although a module on its way was shut down when it passed", r.t, arr[0].0)));
                return;
            }
        } else if !uncertain {
            if arr.is_empty() {
                if limit_stopped && t >= end_time {
                    continue;
                }
                info.violate(Violation::new("C09", "lost-outside-downtime", format!(
                    "message {uid:#x} (offered at {} ns, due at module {} at {t} ns) was lost although no module on its way was shut down", r.t, module_path(prog, dest))));
                return;
            }
            if arr[0].1 != dest || arr[0].0.abs_diff(t) > 2 {
                info.violate(Violation::new("C09", "healthy-traffic-disturbed", format!(
                    "message {uid:#x} arrived at module {} at {} ns, expected module {} at {t} ns", arr[0].1, arr[0].0, dest)));
                return;
            }
        } else if let Some(a) = arr.first() {
            if a.1 != dest || a.0.abs_diff(t) > 2 {
                info.violate(Violation::new("C09", "healthy-traffic-disturbed", format!(
                    "message {uid:#x} arrived at module {} at {} ns, expected module {} at {t} ns", a.1, a.0, dest)));
                return;
            }
        }
    }
    // own timers (beats) of every module: present outside downtime, absent inside
    for m in 0..nmod {
        if dead_from[m].is_some() {
            continue;
        }
        let spec = &prog.modules[m];
        // (a module without start-up stages never arms its scripted timers)
        if eff_stages(spec) == 0 {
            continue;
        }
        let mut starts: Vec<(u16, u64)> = vec![(0, 0)];
        for (k, d) in downs[m].iter().enumerate() {
            if let (Some(u), Some(_)) = (d.until_t, d.start_seq) {
                starts.push((k as u16 + 1, u));
            }
        }
        for (inc, s0) in &starts {
            let next_down = downs[m].get(*inc as usize).map(|d| d.from_t);
            for (i, b) in spec.beats.iter().enumerate() {
                let t = s0 + b.at_ns;
                let seen = tr.iter().filter(|r| r.m as usize == m && matches!(&r.ev, Ev::Beat { i: bi, inc: binc } if *bi as usize == i && binc == inc)).map(|r| r.t).collect::<Vec<_>>();
                if seen.len() > 1 || seen.iter().any(|x| *x != t) {
                    info.violate(Violation::new("C09", "timer-wrong", format!(
                        "module {} incarnation {inc}: scripted timer {i} fired at {seen:?}, due once at {t} ns", module_path(prog, m))));
                    return;
                }
                let must = next_down.map_or(true, |d| t < d);
                // a chained timer only exists if its predecessor ran
                if must && seen.is_empty() && !(limit_stopped && t >= end_time) {
                    // stale beats of this incarnation that arrive after a later restart are recorded under the old inc too
                    info.violate(Violation::new("C09", "timer-lost", format!(
                        "module {} incarnation {inc}: scripted timer {i} due at {t} ns never fired although the module was up", module_path(prog, m))));
                    return;
                }
            }
        }
    }
    let any_down = downs.iter().any(|d| !d.is_empty());
    info.probe_n("shutdown_cycles", downs.iter().map(|d| d.len() as u64).sum());
    info.probe_n("joined_task_of_a_module_that_was_shut_down", (0..nmod).filter(|m| !downs[*m].is_empty() && prog.modules[*m].tasks.iter().any(|t| t.join == 1)).count() as u64);
    info.probe_n("observing_element_on_a_module_that_was_shut_down", (0..nmod).filter(|m| !downs[*m].is_empty() && !prog.modules[*m].pes.is_empty()).count() as u64);
    info.probe_n("message_or_timer_inside_downtime", inside_hits);
    info.events += res.ok.map_or(0, |o| o.1 as u64);
    info.sim_time_ns += u128::from(res.ok.map_or(0, |o| o.0));
    info.nontrivial = any_down && inside_hits > 0;
}
