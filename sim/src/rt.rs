//! Engine `rt`: seeded event programs on the real generic `des::runtime::Runtime`.
//! Serves C02 (clock), the runtime-level part of C03 (tie order), C10 (stepping) and C11 (limits).

use crate::common::*;
use crate::prng::Rng;
use des::prelude::*;
use des::runtime::{Profiler, RuntimeLimit};
use serde::{Deserialize, Serialize};
use std::time::Duration;

#[derive(Serialize, Deserialize, Clone, Debug, PartialEq, Eq, Hash)]
pub struct Spec {
    /// (delay in ns, spec index of the child); delay 0 = same instant
    pub children: Vec<(u64, u32)>,
    /// use `add_event_in` (relative) instead of `add_event` (absolute)
    pub rel: bool,
    /// attempt to schedule `past` ns before the current time from this handler (0 = no attempt)
    pub past: u64,
}

#[derive(Serialize, Deserialize, Clone, Debug, PartialEq, Eq, Hash)]
pub struct Root {
    pub spec: u32,
    /// time = start + delta, or start - delta when `before_start`
    pub delta: u64,
    pub before_start: bool,
    /// scheduled from `at_sim_start` instead of before `run`
    pub at_start: bool,
    pub rel: bool,
}

#[derive(Serialize, Deserialize, Clone, Debug, PartialEq, Eq, Hash)]
#[serde(tag = "l")]
pub enum Lim {
    None,
    Count { n: u64 },
    Time { ns: u64 },
    And { a: Box<Lim>, b: Box<Lim> },
    Or { a: Box<Lim>, b: Box<Lim> },
}

#[derive(Serialize, Deserialize, Clone, Debug, PartialEq, Eq, Hash)]
#[serde(tag = "call")]
pub enum LimCall {
    MaxItr { n: u64 },
    MaxTime { ns: u64 },
    Limit { lim: Lim },
}

#[derive(Serialize, Deserialize, Clone, Debug, PartialEq, Eq, Hash)]
#[serde(tag = "step")]
pub enum Step {
    N { k: u64 },
    Until { kind: u8, a: u64 },
    /// external add while paused: kind 0 = at the reported time, 1 = between reported and next pending,
    /// 2 = equal to the next pending timestamp, 3 = reported + a
    Add { kind: u8, a: u64 },
    /// while the run is paused the driver configures a builder for some later simulation (start time `a`) and drops it
    /// without building: nothing of that may show in the paused runtime
    OtherBuilder { a: u64 },
}

#[derive(Serialize, Deserialize, Clone, Debug, PartialEq, Eq, Hash)]
pub struct RtProgram {
    pub n: usize,
    pub t_ns: u64,
    /// nanoseconds per time unit of this program (0 or 1: the unit is the nanosecond)
    #[serde(default)]
    pub scale: u64,
    pub start_ns: u64,
    pub specs: Vec<Spec>,
    pub roots: Vec<Root>,
    pub max_instances: u32,
    pub limits: Vec<LimCall>,
    pub steps: Vec<Step>,
    /// fault: while the handler of the k-th event runs, another thread of the process builds a runtime of its own with
    /// this start time (it has to wait for the simulation lock until this runtime is gone): (k, start time)
    #[serde(default)]
    pub intruder: Option<(u32, u64)>,
    /// handlers hand work to a helper thread that reads the simulation clock (the first few events of the run)
    #[serde(default)]
    pub helper_reads: bool,
    /// fault: the handler of this event instance (index modulo the number of instances) panics before it schedules
    /// anything; the driver catches the panic around `dispatch_all` and carries on
    #[serde(default)]
    pub panic_uid: Option<u32>,
    /// C11: after the limited run has stopped, the driver adds one more event for the time the runtime reports and
    /// dispatches again: the limit decides about that event like about any other
    #[serde(default)]
    pub resume_add: bool,
    /// the whole program happens late in a long simulation: this many nanoseconds are added to every absolute time
    /// (start time, timestamps, limits, until-times), so that timestamps one nanosecond apart lie beyond 2^53 ns.
    /// Honoured only for bucket widths of a second or more (the calendar walks from 0 to the first event).
    #[serde(default)]
    pub epoch_ns: u64,
}

// ---------------------------------------------------------------- static expansion

#[derive(Clone, Debug)]
struct Inst {
    spec: usize,
    time: u64,
    children: Vec<usize>,
    rel: bool,
    /// roots only
    at_start: bool,
    /// this root lies before the start time: scheduling it must be rejected
    past_root: bool,
}

fn cap_delta(d: u64, t: u64) -> u64 {
    d.min(t.saturating_mul(100_000))
}

fn expand(p: &RtProgram) -> (Vec<Inst>, Vec<usize>) {
    let t = p.t_ns.max(1);
    let start = cap_delta(p.start_ns, t);
    let mut insts: Vec<Inst> = Vec::new();
    let mut roots = Vec::new();
    if p.specs.is_empty() {
        return (insts, roots);
    }
    let cap = p.max_instances.clamp(1, 400) as usize;
    let mut queue = std::collections::VecDeque::new();
    for r in &p.roots {
        if insts.len() >= cap {
            break;
        }
        let d = cap_delta(r.delta, t);
        let (time, past_root) = if r.before_start {
            let tm = start.saturating_sub(d);
            (tm, tm < start)
        } else {
            (start + d, false)
        };
        let spec = r.spec as usize % p.specs.len();
        insts.push(Inst { spec, time, children: Vec::new(), rel: r.rel && !r.before_start, at_start: r.at_start, past_root });
        roots.push(insts.len() - 1);
        if !past_root {
            queue.push_back(insts.len() - 1);
        }
    }
    while let Some(i) = queue.pop_front() {
        let spec = insts[i].spec;
        for (delay, cs) in &p.specs[spec].children {
            if insts.len() >= cap {
                break;
            }
            let cs = *cs as usize % p.specs.len();
            let time = insts[i].time + cap_delta(*delay, t);
            insts.push(Inst { spec: cs, time, children: Vec::new(), rel: p.specs[spec].rel, at_start: false, past_root: false });
            let c = insts.len() - 1;
            insts[i].children.push(c);
            queue.push_back(c);
        }
    }
    if let Some(u) = p.panic_uid {
        if !insts.is_empty() {
            let u = u as usize % insts.len();
            insts[u].children.clear();
        }
    }
    (insts, roots)
}

// ---------------------------------------------------------------- the real application

const EXT_BASE: usize = 1_000_000;
const PAST_UID: usize = 9_000_000;

#[derive(Debug)]
struct Ev {
    uid: usize,
}

#[derive(Default)]
struct Log {
    /// (uid, clock seen inside the handler in ns)
    handled: Vec<(usize, u64)>,
    /// (where, attempted time, now, accepted)
    past_attempts: Vec<(usize, u64, u64, bool)>,
    /// a scheduling call that must succeed panicked: (uid scheduled, time, now)
    rejected: Vec<(usize, u64, u64)>,
}

struct App {
    insts: Vec<Inst>,
    specs: Vec<Spec>,
    roots: Vec<usize>,
    log: Log,
    panic_uid: Option<usize>,
}

impl Application for App {
    type EventSet = Ev;
    type Lifecycle = Self;
}

thread_local! {
    /// nanoseconds per program time unit (1 for most programs; large values move the whole program beyond 2^64 ns)
    static SCALE: std::cell::Cell<u128> = const { std::cell::Cell::new(1) };
}
pub const MAX_SCALE: u64 = 1_000_000_000_000;
thread_local! {
    static EPOCH: std::cell::Cell<u128> = const { std::cell::Cell::new(0) };
}
pub const MAX_EPOCH: u64 = 40_000_000_000_000_000;
fn epoch() -> u128 {
    EPOCH.with(|s| s.get())
}
fn epoch_of(p: &RtProgram) -> u128 {
    if u128::from(p.t_ns.max(1)) * u128::from(p.scale.clamp(1, MAX_SCALE)) >= 1_000_000_000 {
        u128::from(p.epoch_ns.min(MAX_EPOCH))
    } else {
        0
    }
}
fn scale() -> u128 {
    SCALE.with(|s| s.get())
}
fn dur(units: u64) -> Duration {
    let total = u128::from(units) * scale();
    Duration::new((total / 1_000_000_000) as u64, (total % 1_000_000_000) as u32)
}
fn st(units: u64) -> SimTime {
    let total = u128::from(units) * scale() + epoch();
    SimTime::from_duration(Duration::new((total / 1_000_000_000) as u64, (total % 1_000_000_000) as u32))
}
/// program time units of a simulation time; a time that is not a whole number of units cannot be one the program
/// produced and maps to a value no program time equals
fn ns_of(t: SimTime) -> u64 {
    let n = t.as_nanos();
    let s = scale();
    if n < epoch() {
        return (u64::MAX >> 1) + (n % 1_000_003) as u64;
    }
    let n = n - epoch();
    if n % s != 0 || n / s > u128::from(u64::MAX >> 2) {
        return (u64::MAX >> 1) + (n % 1_000_003) as u64;
    }
    (n / s) as u64
}

/// schedules instance `uid`; every call is expected to be accepted
fn schedule(rt: &mut Runtime<App>, uid: usize, time: u64, rel: bool) {
    let now = ns_of(SimTime::now());
    let r = std::panic::catch_unwind(std::panic::AssertUnwindSafe(|| {
        if rel && time >= now {
            rt.add_event_in(Ev { uid }, dur(time - now));
        } else {
            rt.add_event(Ev { uid }, st(time));
        }
    }));
    if r.is_err() {
        crate::clear_panic();
        rt.app.log.rejected.push((uid, time, now));
    }
}

fn attempt_past(rt: &mut Runtime<App>, whom: usize, time: u64) {
    let now = ns_of(SimTime::now());
    let r = std::panic::catch_unwind(std::panic::AssertUnwindSafe(|| {
        rt.add_event(Ev { uid: PAST_UID + whom }, st(time));
    }));
    crate::clear_panic();
    rt.app.log.past_attempts.push((whom, time, now, r.is_ok()));
}

impl EventLifecycle for App {
    fn at_sim_start(rt: &mut Runtime<Self>) {
        let roots = rt.app.roots.clone();
        for r in roots {
            let i = rt.app.insts[r].clone();
            if i.at_start {
                if i.past_root {
                    attempt_past(rt, r, i.time);
                } else {
                    schedule(rt, r, i.time, i.rel);
                }
            }
        }
    }
}

/// what the intruding thread of the C04 fault does: a generic runtime of its own, built and dropped
pub fn build_and_drop_generic_runtime(start_ns: u64) {
    let app = App { insts: vec![], specs: vec![], roots: vec![], log: Log::default(), panic_uid: None };
    let rt = Builder::seeded(3).quiet().start_time(SimTime::from_duration(Duration::from_nanos(start_ns))).build(app);
    drop(rt);
}

struct Intruder {
    k: usize,
    count: usize,
    go: Option<std::sync::mpsc::Sender<()>>,
    entered: std::sync::Arc<std::sync::atomic::AtomicBool>,
}
thread_local! {
    static INTRUDER: std::cell::RefCell<Option<Intruder>> = const { std::cell::RefCell::new(None) };
}
/// Lets the other thread start building its runtime now and gives it time to run into the simulation lock.
fn intruder_hook() {
    INTRUDER.with(|i| {
        let mut i = i.borrow_mut();
        let Some(c) = i.as_mut() else { return };
        c.count += 1;
        if c.count == c.k + 1 {
            if let Some(go) = c.go.take() {
                let _ = go.send(());
                let t0 = std::time::Instant::now();
                while !c.entered.load(std::sync::atomic::Ordering::SeqCst) && t0.elapsed() < Duration::from_millis(500) {
                    std::thread::yield_now();
                }
                std::thread::sleep(Duration::from_millis(1));
            }
        }
    });
}

thread_local! {
    /// (remaining helper reads, observations: (uid, clock seen by the handler, clock seen by its helper thread))
    static HELPER: std::cell::RefCell<(u32, Vec<(usize, u128, u128)>)> = const { std::cell::RefCell::new((0, Vec::new())) };
}
fn helper_hook(uid: usize) {
    let go = HELPER.with(|h| {
        let mut h = h.borrow_mut();
        if h.0 > 0 {
            h.0 -= 1;
            true
        } else {
            false
        }
    });
    if go {
        let mine = SimTime::now().as_nanos();
        let theirs = std::thread::scope(|s| s.spawn(|| SimTime::now().as_nanos()).join().unwrap_or(u128::MAX));
        HELPER.with(|h| h.borrow_mut().1.push((uid, mine, theirs)));
    }
}

impl Event<App> for Ev {
    fn handle(self, rt: &mut Runtime<App>) {
        intruder_hook();
        helper_hook(self.uid);
        let now = ns_of(SimTime::now());
        rt.app.log.handled.push((self.uid, now));
        if rt.app.panic_uid == Some(self.uid) {
            panic!("scripted panic in the handler of event {}", self.uid);
        }
        if self.uid >= EXT_BASE {
            return;
        }
        let inst = rt.app.insts[self.uid].clone();
        for c in &inst.children {
            let ci = rt.app.insts[*c].clone();
            schedule(rt, *c, ci.time, ci.rel);
        }
        let past = rt.app.specs[inst.spec].past;
        if past > 0 && now >= past.min(now) && now > 0 {
            let target = now - past.min(now);
            if target < now {
                attempt_past(rt, self.uid, target);
            }
        }
    }
}

fn to_limit(l: &Lim) -> RuntimeLimit {
    match l {
        Lim::None => RuntimeLimit::None,
        Lim::Count { n } => RuntimeLimit::EventCount(*n as usize),
        Lim::Time { ns } => RuntimeLimit::SimTime(st(*ns)),
        Lim::And { a, b } => RuntimeLimit::CombinedAnd(Box::new(to_limit(a)), Box::new(to_limit(b))),
        Lim::Or { a, b } => RuntimeLimit::CombinedOr(Box::new(to_limit(a)), Box::new(to_limit(b))),
    }
}

/// Limit semantics written from the property text: does the limit forbid handling an event that
/// would be the `k`-th handled one and carries timestamp `time`?
fn lim_stops(l: &Lim, k: u64, time: u64) -> bool {
    match l {
        Lim::None => false,
        Lim::Count { n } => k > *n,
        Lim::Time { ns } => time > *ns,
        Lim::And { a, b } => lim_stops(a, k, time) && lim_stops(b, k, time),
        Lim::Or { a, b } => lim_stops(a, k, time) || lim_stops(b, k, time),
    }
}

fn calls_stop(calls: &[LimCall], k: u64, time: u64) -> bool {
    // several builder calls combine with OR
    calls.iter().any(|c| match c {
        LimCall::MaxItr { n } => k > *n,
        LimCall::MaxTime { ns } => time > *ns,
        LimCall::Limit { lim } => lim_stops(lim, k, time),
    })
}

fn make_runtime(p: &RtProgram, with_limits: bool) -> Runtime<App> {
    let t = p.t_ns.max(1);
    let (insts, roots) = expand(p);
    let panic_uid = p.panic_uid.filter(|_| !insts.is_empty()).map(|u| u as usize % insts.len());
    let app = App { insts, specs: p.specs.clone(), roots, log: Log::default(), panic_uid };
    let mut b = Builder::seeded(1).quiet().cqueue_options(p.n.max(1), dur(t));
    let start = cap_delta(p.start_ns, t);
    if start > 0 || epoch() > 0 {
        b = b.start_time(st(start));
    }
    if with_limits {
        for c in &p.limits {
            b = match c {
                LimCall::MaxItr { n } => b.max_itr(*n as usize),
                LimCall::MaxTime { ns } => b.max_time(st(*ns)),
                LimCall::Limit { lim } => b.limit(to_limit(lim)),
            };
        }
    }
    let mut rt = b.build(app);
    // roots scheduled before `run`
    let roots = rt.app.roots.clone();
    for r in roots {
        let i = rt.app.insts[r].clone();
        if !i.at_start {
            if i.past_root {
                attempt_past(&mut rt, r, i.time);
            } else {
                schedule(&mut rt, r, i.time, i.rel);
            }
        }
    }
    rt
}

// ---------------------------------------------------------------- reference DES

#[derive(Clone, Debug)]
struct Pend {
    time: u64,
    seq: u64,
    zero: bool,
    uid: usize,
}

struct Model<'a> {
    insts: &'a [Inst],
    pending: Vec<Pend>,
    seq: u64,
    /// the event set's notion of the current instant (0 before the first dispatch)
    instant: u64,
    clock: u64,
    handled: Vec<(usize, u64)>,
}

impl<'a> Model<'a> {
    fn new(insts: &'a [Inst], start: u64) -> Self {
        Model { insts, pending: Vec::new(), seq: 0, instant: 0, clock: start, handled: Vec::new() }
    }
    fn sched(&mut self, uid: usize, time: u64) {
        let zero = time == self.instant;
        self.pending.push(Pend { time, seq: self.seq, zero, uid });
        self.seq += 1;
    }
    fn next_idx(&self) -> Option<usize> {
        if let Some((i, _)) = self.pending.iter().enumerate().filter(|(_, p)| p.zero).min_by_key(|(_, p)| p.seq) {
            return Some(i);
        }
        self.pending.iter().enumerate().min_by_key(|(_, p)| (p.time, p.seq)).map(|(i, _)| i)
    }
    fn next_time(&self) -> Option<u64> {
        self.next_idx().map(|i| self.pending[i].time)
    }
    fn step(&mut self) -> bool {
        let Some(i) = self.next_idx() else { return false };
        let p = self.pending.remove(i);
        self.instant = p.time;
        self.clock = p.time;
        self.handled.push((p.uid, p.time));
        if p.uid < EXT_BASE {
            let ch = self.insts[p.uid].children.clone();
            for c in ch {
                let t = self.insts[c].time;
                self.sched(c, t);
            }
        }
        true
    }
    fn seed_roots(&mut self, roots: &[usize], at_start: bool) {
        for r in roots {
            let i = &self.insts[*r];
            if i.at_start == at_start && !i.past_root {
                self.sched(*r, i.time);
            }
        }
    }
}

// ---------------------------------------------------------------- execution + oracles

struct RealRun {
    /// what the paused runtime reports as its time right after the driver caught the panic of a handler
    clock_after_caught_panic: Option<u64>,
    handled: Vec<(usize, u64)>,
    past_attempts: Vec<(usize, u64, u64, bool)>,
    rejected: Vec<(usize, u64, u64)>,
    end_time: u64,
    event_count: usize,
    remaining: Vec<(usize, u64)>,
    escaped_panic: Option<String>,
}

fn finish_real(res: Result<(App, SimTime, Profiler<Ev>), RuntimeError>) -> RealRun {
    match res {
        Ok((app, time, prof)) => RealRun {
            clock_after_caught_panic: None,
            handled: app.log.handled,
            past_attempts: app.log.past_attempts,
            rejected: app.log.rejected,
            end_time: ns_of(time),
            event_count: prof.event_count,
            remaining: prof.remaining.iter().map(|(e, t)| (e.uid, ns_of(*t))).collect(),
            escaped_panic: None,
        },
        Err(e) => RealRun {
            clock_after_caught_panic: None,
            handled: vec![],
            past_attempts: vec![],
            rejected: vec![],
            end_time: 0,
            event_count: 0,
            remaining: vec![],
            escaped_panic: Some(format!("run returned an error: {e:?}")),
        },
    }
}

fn run_plain(p: &RtProgram, with_limits: bool) -> RealRun {
    let r = std::panic::catch_unwind(std::panic::AssertUnwindSafe(|| {
        let mut rt = make_runtime(p, with_limits);
        if p.panic_uid.is_none() {
            return finish_real(rt.run());
        }
        // a handler panics: the driver catches the panic around the dispatch call and carries on
        rt.start();
        let mut clock_after = None;
        for _ in 0..4 {
            let r = std::panic::catch_unwind(std::panic::AssertUnwindSafe(|| rt.dispatch_all()));
            if r.is_ok() {
                break;
            }
            crate::clear_panic();
            clock_after.get_or_insert(ns_of(rt.sim_time()));
        }
        let mut rr = finish_real(rt.finish());
        rr.clock_after_caught_panic = clock_after;
        rr
    }));
    match r {
        Ok(r) => r,
        Err(pl) => {
            let (msg, loc) = crate::take_panic(pl);
            RealRun { clock_after_caught_panic: None, handled: vec![], past_attempts: vec![], rejected: vec![], end_time: 0, event_count: 0, remaining: vec![], escaped_panic: Some(format!("{msg} at {loc}")) }
        }
    }
}

pub fn execute(p: &RtProgram, prop: &str) -> RunInfo {
    let mut info = RunInfo::default();
    SCALE.with(|s| s.set(u128::from(p.scale.clamp(1, MAX_SCALE))));
    EPOCH.with(|s| s.set(epoch_of(p)));
    if epoch() > 0 {
        info.probe("program_late_in_a_long_simulation");
    }
    let t = p.t_ns.max(1);
    let start = cap_delta(p.start_ns, t);
    let (insts, roots) = expand(p);
    if insts.is_empty() {
        return info;
    }
    // reference run (no limits, no pauses)
    let mut model = Model::new(&insts, start);
    model.seed_roots(&roots, false);
    model.seed_roots(&roots, true);
    while model.step() {}

    // real uninterrupted, unlimited run
    let real = run_plain(p, false);
    info.events += real.handled.len() as u64;
    info.sim_time_ns += u128::from(real.end_time) * scale();
    let mut th = TraceHash::default();
    for (i, (uid, time)) in real.handled.iter().enumerate() {
        // abstract: position within its tie group and whether it was a zero-delay insert
        let tie_pos = real.handled[..i].iter().rev().take_while(|(_, t2)| t2 == time).count();
        th.push((*uid as u64 % 7) * 64 + tie_pos.min(15) as u64);
    }
    info.trace_hash = th.0;

    // probes
    let ties = real.handled.windows(2).filter(|w| w[0].1 == w[1].1).count() as u64;
    info.probe_n("tie_adjacent_pairs", ties);
    let zero_delay_children = insts.iter().map(|i| i.children.iter().filter(|c| insts[**c].time == i.time).count() as u64).sum::<u64>();
    info.probe_n("zero_delay_child", zero_delay_children);
    if start > 0 {
        info.probe("nonzero_start_time");
    }
    if u128::from(real.end_time) * scale() > u128::from(u64::MAX) {
        info.probe("run_beyond_2_pow_64_ns");
    }
    info.probe_n("past_attempt", real.past_attempts.len() as u64);
    info.probe_n("past_root_attempt", roots.iter().filter(|r| insts[**r].past_root).count() as u64);

    match prop {
        "C02" => check_c02(p, &insts, &roots, start, &real, &mut info),
        "C03" => {
            check_c03(&model, &real, &mut info);
            if !p.steps.is_empty() && info.violations.is_empty() {
                check_c03_stepped(p, &insts, &roots, start, &real, &mut info);
            }
        }
        "C10" => check_c10(p, &insts, &roots, start, &model, &real, &mut info),
        "C01" => check_c01_rt(p, &insts, &roots, start, &real, &mut info),
        "C11" => check_c11(p, &insts, &roots, start, &real, &mut info),
        _ => {}
    }
    if scale() > 1 {
        for v in &mut info.violations {
            v.msg.push_str(&format!(" [times of this program are given in units of {} ns]", scale()));
        }
    }
    info
}

fn check_c02(p: &RtProgram, insts: &[Inst], roots: &[usize], start: u64, real: &RealRun, info: &mut RunInfo) {
    let _ = p;
    if let Some(e) = &real.escaped_panic {
        info.violate(Violation::new("C02", "panic", format!("a panic or error escaped Runtime::run: {e}")));
        return;
    }
    // every accepted-by-contract scheduling call must have been accepted
    if let Some((uid, time, now)) = real.rejected.first() {
        info.violate(Violation::new("C02", "future-rejected", format!("scheduling event {uid} for {time} ns at simulated time {now} ns (not in the past) panicked")));
        return;
    }
    // past attempts must be rejected
    for (whom, time, now, accepted) in &real.past_attempts {
        if *accepted {
            info.violate(
                Violation::new("C02", "past-accepted", format!("scheduling for {time} ns while the simulated time is {now} ns was accepted (requested by {whom})"))
                    .fact("before_first_dispatch", i64::from(real.handled.first().map_or(true, |h| h.1 >= *now) && *now == start))
                    .fact("nonzero_start", i64::from(start > 0)),
            );
            return;
        }
    }
    // a handler panicked and the driver caught the panic: the clock stays where the panicked event had put it
    if let (Some(u), Some(c)) = (p.panic_uid, real.clock_after_caught_panic) {
        info.probe("handler_panic_caught_by_the_driver");
        let t = insts[u as usize % insts.len()].time;
        if c != t {
            info.violate(Violation::new("C02", if c < t { "clock-regress" } else { "clock-mismatch" }, format!(
                "after the driver caught the panic of the handler of event {} (timestamp {t} ns) the runtime reports the time {c} ns", u as usize % insts.len())));
            return;
        }
    }
    // clock inside handlers
    let mut last = start;
    let mut seen = vec![0u32; insts.len()];
    for (uid, clock) in &real.handled {
        if *uid >= PAST_UID {
            info.violate(Violation::new("C02", "past-handled", format!("an event scheduled in the past was handled at {clock} ns")));
            return;
        }
        if *uid >= insts.len() {
            continue;
        }
        if *clock != insts[*uid].time {
            info.violate(Violation::new("C02", "clock-mismatch", format!("handler of event {uid} saw SimTime::now() = {clock} ns, scheduled for {} ns", insts[*uid].time)));
            return;
        }
        if *clock < last {
            info.violate(Violation::new("C02", "clock-regress", format!("clock went from {last} ns back to {clock} ns (event {uid})")));
            return;
        }
        last = *clock;
        seen[*uid] += 1;
        if seen[*uid] > 1 {
            info.violate(Violation::new("C02", "handled-twice", format!("event {uid} handled {} times", seen[*uid])));
            return;
        }
    }
    // exactly once: every instance reachable from accepted roots
    let mut reach = vec![false; insts.len()];
    let mut stack: Vec<usize> = roots.iter().copied().filter(|r| !insts[*r].past_root).collect();
    while let Some(i) = stack.pop() {
        if !reach[i] {
            reach[i] = true;
            stack.extend(insts[i].children.iter().copied());
        }
    }
    for (i, r) in reach.iter().enumerate() {
        if *r && seen[i] == 0 {
            info.violate(Violation::new("C02", "never-handled", format!("event {i} (scheduled for {} ns) was never handled", insts[i].time)));
            return;
        }
        if !*r && seen[i] > 0 {
            info.violate(Violation::new("C02", "handled-unscheduled", format!("event {i} was handled although it was never (successfully) scheduled")));
            return;
        }
    }
    let expect_end = real.handled.last().map_or(start, |h| insts.get(h.0).map_or(h.1, |i| i.time));
    if real.end_time != expect_end {
        info.violate(Violation::new("C02", "end-time", format!("run returned {} ns, timestamp of the last handled event is {expect_end} ns", real.end_time)));
        return;
    }
    if real.event_count != real.handled.len() {
        info.violate(Violation::new("C02", "event-count", format!("profiler counts {} events, {} were handled", real.event_count, real.handled.len())));
        return;
    }
    // the clock must not move backwards when the run is driven in steps either (any until-time, also one in the past)
    if !p.steps.is_empty() {
        let r = std::panic::catch_unwind(std::panic::AssertUnwindSafe(|| {
            let mut rt = make_runtime(p, false);
            rt.start();
            let mut obs: Vec<(usize, u64)> = Vec::new();
            for step in &p.steps {
                let now = ns_of(rt.sim_time());
                match step {
                    Step::N { k } => {
                        rt.dispatch_n_events((*k).min(1000) as usize);
                    }
                    Step::Until { kind, a } => {
                        let t = match kind % 3 {
                            0 => now.saturating_sub(*a % 1000),
                            1 => now,
                            _ => now + cap_delta(*a, p.t_ns.max(1)),
                        };
                        rt.dispatch_events_until(st(t));
                    }
                    Step::Add { .. } => {}
                    Step::OtherBuilder { a } => drop(Builder::new().quiet().start_time(st(*a))),
                }
                obs.push((rt.app.log.handled.len(), ns_of(rt.sim_time())));
            }
            rt.dispatch_all();
            let handled = rt.app.log.handled.clone();
            let _ = rt.finish();
            (obs, handled)
        }));
        match r {
            Ok((obs, handled)) => {
                info.probe("clock_checked_under_stepping");
                let mut last = start;
                let mut oi = 0;
                for (i, (uid, clock)) in handled.iter().enumerate() {
                    while oi < obs.len() && obs[oi].0 <= i {
                        if obs[oi].1 < last {
                            info.violate(Violation::new("C02", "clock-regress", format!(
                                "while paused after a step the clock shows {} ns, it had already reached {last} ns", obs[oi].1)).fact("stepping", 1));
                            return;
                        }
                        last = obs[oi].1;
                        oi += 1;
                    }
                    if *clock < last {
                        info.violate(Violation::new("C02", "clock-regress", format!(
                            "stepped run: clock went from {last} ns back to {clock} ns (event {uid})")).fact("stepping", 1));
                        return;
                    }
                    if let Some(inst) = insts.get(*uid) {
                        if inst.time != *clock {
                            info.violate(Violation::new("C02", "clock-mismatch", format!(
                                "stepped run: handler of event {uid} saw SimTime::now() = {clock} ns, scheduled for {} ns", inst.time)).fact("stepping", 1));
                            return;
                        }
                    }
                    last = *clock;
                }
                for o in &obs[oi..] {
                    if o.1 < last {
                        info.violate(Violation::new("C02", "clock-regress", format!(
                            "while paused after a step the clock shows {} ns, it had already reached {last} ns", o.1)).fact("stepping", 1));
                        return;
                    }
                    last = o.1;
                }
            }
            Err(pl) => {
                let _ = crate::take_panic(pl); // a panicking step is C10's statement
            }
        }
    }
    // work handed to a helper thread from inside a handler: the simulation clock is process-wide, the helper reads the
    // same time as the handler that started it
    if p.helper_reads {
        HELPER.with(|h| *h.borrow_mut() = (6, Vec::new()));
        let _ = run_plain(p, false);
        let obs = HELPER.with(|h| std::mem::take(&mut *h.borrow_mut())).1;
        info.probe_n("helper_thread_read_the_clock", obs.len() as u64);
        if let Some((uid, mine, theirs)) = obs.iter().find(|o| o.1 != o.2) {
            info.violate(Violation::new("C02", "clock-differs-across-threads", format!(
                "handler of event {uid} read SimTime::now() = {mine} ns, a helper thread it started and joined read {theirs} ns")));
            return;
        }
    }
    // another thread of the process builds a runtime while this one is inside a handler: it must wait for the simulation
    // lock before it touches the global clock, so the handlers of this run keep seeing their own timestamps
    if let Some((k, bstart)) = p.intruder {
        let entered = std::sync::Arc::new(std::sync::atomic::AtomicBool::new(false));
        let (go_tx, go_rx) = std::sync::mpsc::channel::<()>();
        let e2 = entered.clone();
        let sc = p.scale.clamp(1, MAX_SCALE);
        let other = std::thread::spawn(move || {
            if go_rx.recv().is_err() {
                return false;
            }
            SCALE.with(|s| s.set(u128::from(sc)));
            e2.store(true, std::sync::atomic::Ordering::SeqCst);
            let app = App { insts: vec![], specs: vec![], roots: vec![], log: Log::default(), panic_uid: None };
            let rt = Builder::seeded(3).quiet().start_time(st(bstart)).build(app);
            drop(rt);
            true
        });
        let nh = real.handled.len().max(1);
        INTRUDER.with(|i| *i.borrow_mut() = Some(Intruder { k: k as usize % nh, count: 0, go: Some(go_tx), entered }));
        let run = run_plain(p, false);
        INTRUDER.with(|i| *i.borrow_mut() = None);
        let built = other.join().unwrap_or(false);
        if built {
            info.probe("other_thread_built_a_runtime_during_a_handler");
        }
        if run.escaped_panic.is_none() {
            for (uid, clock) in &run.handled {
                if let Some(inst) = insts.get(*uid) {
                    if inst.time != *clock {
                        info.violate(Violation::new("C02", "clock-changed-by-other-thread", format!(
                            "handler of event {uid} saw SimTime::now() = {clock} ns, scheduled for {} ns, while another thread was building a runtime with start time {bstart} ns", inst.time)));
                        return;
                    }
                }
            }
        }
    }
    let handler_scheduled = insts.iter().any(|i| !i.children.is_empty());
    info.nontrivial = handler_scheduled && (start > 0 || !real.past_attempts.is_empty());
}

fn check_c03(model: &Model, real: &RealRun, info: &mut RunInfo) {
    if real.escaped_panic.is_some() || !real.rejected.is_empty() {
        return; // C02's business
    }
    // the tie rule is evaluated on the scheduling history the program asked for; if events did not even
    // run at the timestamps they were scheduled with, that is C02's statement, not this one
    if real.handled.iter().any(|(uid, clock)| model.insts.get(*uid).map_or(true, |i| i.time != *clock)) {
        return;
    }
    // every event handled exactly once is C02's statement; the tie rule ranks the events that did run
    {
        let mut a: Vec<usize> = model.handled.iter().map(|h| h.0).collect();
        let mut b: Vec<usize> = real.handled.iter().map(|h| h.0).collect();
        a.sort_unstable();
        b.sort_unstable();
        if a != b {
            return;
        }
    }
    let mut tie_group = false;
    for (i, (m, r)) in model.handled.iter().zip(real.handled.iter()).enumerate() {
        if i > 0 && model.handled[i - 1].1 == m.1 {
            tie_group = true;
        }
        if m.0 != r.0 {
            if m.1 == r.1 {
                info.violate(Violation::new("C03", "tie-order", format!(
                    "position {i}: event {} was dispatched at {} ns where the tie rule ranks event {} first", r.0, r.1, m.0)));
            }
            // different timestamps: time order itself is broken, which is C02's statement
            return;
        }
    }
    info.nontrivial = tie_group;
}

/// C01 seen through the runtime (`Runtime::add_event` + handler order): the run is paused at limits, events are added
/// from outside between the current time and the pending events, and resumed. Every scheduled event is handled exactly
/// once, in non-decreasing order of the timestamps they were scheduled with. (How far a step goes, the clock and the
/// order inside a group of equal timestamps are other properties' statements.)
fn check_c01_rt(p: &RtProgram, insts: &[Inst], roots: &[usize], start: u64, unint: &RealRun, info: &mut RunInfo) {
    if unint.escaped_panic.is_some() || !unint.rejected.is_empty() {
        return;
    }
    let tcap = p.t_ns.max(1);
    let res = std::panic::catch_unwind(std::panic::AssertUnwindSafe(|| {
        let mut rt = make_runtime(p, false);
        rt.start();
        let mut ext_list: Vec<(usize, u64)> = Vec::new();
        for step in &p.steps {
            let before: Vec<(usize, u64)> = rt.app.log.handled.clone();
            let pend = pending_now(&before, &ext_list, insts, roots);
            let reported = before.last().map_or(start, |h| static_time(h.0, insts, &ext_list));
            let next = pend.iter().map(|p| p.1).min();
            match step {
                Step::N { k } => {
                    rt.dispatch_n_events((*k).min(1000) as usize);
                }
                Step::Until { kind, a } => {
                    let t = match (kind % 5, next) {
                        (0, Some(nt)) => nt,
                        (1, Some(nt)) => nt.saturating_sub(1).max(reported),
                        (2, Some(nt)) => nt + cap_delta(*a, tcap),
                        (3, _) => reported.saturating_sub(*a % 1000),
                        _ => reported + cap_delta(*a, tcap),
                    };
                    rt.dispatch_events_until(st(t));
                }
                Step::Add { kind, a } => {
                    let time = match (kind % 4, next) {
                        (0, _) => reported,
                        (1, Some(nt)) if nt > reported + 1 => reported + 1 + a % (nt - reported - 1),
                        (2, Some(nt)) => nt,
                        _ => reported + cap_delta(*a, tcap),
                    };
                    let uid = EXT_BASE + ext_list.len();
                    rt.add_event(Ev { uid }, st(time));
                    ext_list.push((uid, time));
                }
                Step::OtherBuilder { a } => drop(Builder::new().quiet().start_time(st(*a))),
            }
        }
        rt.dispatch_all();
        let handled = rt.app.log.handled.clone();
        let remaining = rt.num_events_remaining();
        let _ = rt.finish();
        (handled, ext_list, remaining)
    }));
    let Ok((handled, ext_list, remaining)) = res else {
        let _ = crate::take_panic(Box::new(())); // a panicking step or add is C10's / C02's statement
        crate::clear_panic();
        return;
    };
    info.probe_n("external_add_while_paused", ext_list.len() as u64);
    // non-decreasing order of the scheduled timestamps
    let mut last = 0u64;
    for (i, (uid, _)) in handled.iter().enumerate() {
        let t = static_time(*uid, insts, &ext_list);
        if t < last {
            info.violate(Violation::new("C01", "rt-time-order", format!(
                "runtime driven in steps with events added while paused: event {uid} (scheduled for {t} ns) was handled at position {i}, after an event scheduled for {last} ns")));
            return;
        }
        last = t;
    }
    // exactly once, nothing lost
    let mut expect: Vec<usize> = unint.handled.iter().map(|h| h.0).chain(ext_list.iter().map(|e| e.0)).collect();
    let mut got: Vec<usize> = handled.iter().map(|h| h.0).collect();
    expect.sort_unstable();
    got.sort_unstable();
    if got != expect || remaining != 0 {
        let dup = got.windows(2).find(|w| w[0] == w[1]).map(|w| w[0]);
        let missing: Vec<usize> = expect.iter().copied().filter(|u| !got.contains(u)).take(3).collect();
        info.violate(Violation::new("C01", "rt-exactly-once", format!(
            "runtime driven in steps with events added while paused: {} events handled, {} scheduled; handled twice: {dup:?}; never handled: {missing:?}; {remaining} left in the event set after dispatch_all",
            got.len(), expect.len())));
        return;
    }
    info.nontrivial = !ext_list.is_empty();
}

/// The tie rule when the run is driven in steps and events are added from outside while it is paused: the reference
/// model is stepped as far as the real runtime went in each step (how far a step goes is C10's statement), an event
/// added while paused is scheduled in the model at that point, and the complete order of the run must be the model's.
fn check_c03_stepped(p: &RtProgram, insts: &[Inst], roots: &[usize], start: u64, unint: &RealRun, info: &mut RunInfo) {
    if unint.escaped_panic.is_some() || !unint.rejected.is_empty() {
        return;
    }
    if unint.handled.iter().any(|(uid, clock)| insts.get(*uid).map_or(true, |i| i.time != *clock)) {
        return;
    }
    let tcap = p.t_ns.max(1);
    // stepped real run; per step: events handled so far, and the event added while paused (uid, time)
    let res = std::panic::catch_unwind(std::panic::AssertUnwindSafe(|| {
        let mut rt = make_runtime(p, false);
        rt.start();
        let mut marks: Vec<(usize, Option<(usize, u64)>)> = Vec::new();
        let mut ext_list: Vec<(usize, u64)> = Vec::new();
        for step in &p.steps {
            let before: Vec<(usize, u64)> = rt.app.log.handled.clone();
            let pend = pending_now(&before, &ext_list, insts, roots);
            let reported = before.last().map_or(start, |h| static_time(h.0, insts, &ext_list));
            let next = pend.iter().map(|p| p.1).min();
            let mut added = None;
            match step {
                Step::N { k } => {
                    rt.dispatch_n_events((*k).min(1000) as usize);
                }
                Step::Until { kind, a } => {
                    let t = match (kind % 5, next) {
                        (0, Some(nt)) => nt,
                        (1, Some(nt)) => nt.saturating_sub(1).max(reported),
                        (2, Some(nt)) => nt + cap_delta(*a, tcap),
                        (3, _) => reported.saturating_sub(*a % 1000),
                        _ => reported + cap_delta(*a, tcap),
                    };
                    rt.dispatch_events_until(st(t));
                }
                Step::Add { kind, a } => {
                    let time = match (kind % 4, next) {
                        (0, _) => reported,
                        (1, Some(nt)) if nt > reported + 1 => reported + 1 + a % (nt - reported - 1),
                        (2, Some(nt)) => nt,
                        _ => reported + cap_delta(*a, tcap),
                    };
                    let uid = EXT_BASE + ext_list.len();
                    rt.add_event(Ev { uid }, st(time));
                    ext_list.push((uid, time));
                    added = Some((uid, time));
                }
                Step::OtherBuilder { a } => drop(Builder::new().quiet().start_time(st(*a))),
            }
            marks.push((rt.app.log.handled.len(), added));
        }
        rt.dispatch_all();
        let handled = rt.app.log.handled.clone();
        let _ = rt.finish();
        (marks, handled, ext_list)
    }));
    let Ok((marks, handled, ext_list)) = res else {
        let _ = crate::take_panic(Box::new(())); // a panicking step is C10's statement
        crate::clear_panic();
        return;
    };
    // every event ran at its timestamp, each exactly once (else: C02 / C10)
    if handled.iter().any(|(uid, clock)| static_time(*uid, insts, &ext_list) != *clock) {
        return;
    }
    // the model, stepped like the real run
    let mut model = Model::new(insts, start);
    model.seed_roots(roots, false);
    model.seed_roots(roots, true);
    for (count, added) in &marks {
        while model.handled.len() < *count {
            if !model.step() {
                return; // the real run dispatched more than exists: C10 / C02
            }
        }
        if model.handled.len() != *count {
            return;
        }
        if let Some((uid, time)) = added {
            if *time < model.clock {
                return;
            }
            model.sched(*uid, *time);
        }
    }
    while model.step() {}
    {
        let mut a: Vec<usize> = model.handled.iter().map(|h| h.0).collect();
        let mut b: Vec<usize> = handled.iter().map(|h| h.0).collect();
        a.sort_unstable();
        b.sort_unstable();
        if a != b {
            return;
        }
    }
    info.probe("tie_rule_checked_under_stepping");
    for (i, (m, r)) in model.handled.iter().zip(handled.iter()).enumerate() {
        if m.0 != r.0 {
            if m.1 == r.1 {
                info.violate(Violation::new("C03", "tie-order-stepped", format!(
                    "stepped run with events added while paused, position {i}: event {} was dispatched at {} ns where the tie rule ranks event {} first", r.0, r.1, m.0)));
            }
            return;
        }
    }
    if ext_list.iter().any(|e| handled.iter().filter(|h| h.1 == e.1).count() >= 2) {
        info.probe("external_add_lands_in_tie_group");
    }
}

fn limit_prefix_len(p: &RtProgram, seq: &[(usize, u64)]) -> usize {
    let mut k = 0usize;
    for (_, time) in seq {
        if calls_stop(&p.limits, k as u64 + 1, *time) {
            break;
        }
        k += 1;
    }
    k
}

fn scheduled_by(prefix: &[(usize, u64)], insts: &[Inst], roots: &[usize]) -> Vec<(usize, u64)> {
    let mut set: Vec<(usize, u64)> = roots.iter().filter(|r| !insts[**r].past_root).map(|r| (*r, insts[*r].time)).collect();
    for (uid, _) in prefix {
        if *uid < insts.len() {
            for c in &insts[*uid].children {
                set.push((*c, insts[*c].time));
            }
        }
    }
    let handled: std::collections::BTreeSet<usize> = prefix.iter().map(|h| h.0).collect();
    set.retain(|(u, _)| !handled.contains(u));
    set.sort_unstable();
    set
}

fn check_c11(p: &RtProgram, insts: &[Inst], roots: &[usize], start: u64, unlimited: &RealRun, info: &mut RunInfo) {
    if let (Some(_), Some(e)) = (p.panic_uid, &unlimited.escaped_panic) {
        // the driver caught the panic of one handler around `dispatch_all`; dispatching again and `finish` must work
        info.violate(Violation::new("C11", "panic", format!(
            "after a handler panic that the driver caught around dispatch_all the run could not be completed (pending events are lost): {e}")));
        return;
    }
    if unlimited.escaped_panic.is_some() || !unlimited.rejected.is_empty() {
        return; // not a limit problem
    }
    // limits speak about the timestamps events were scheduled with; if the unlimited run did not run every
    // event at its timestamp (C02) there is no reference sequence to cut
    if unlimited.handled.iter().any(|(uid, clock)| insts.get(*uid).map_or(true, |i| i.time != *clock)) {
        return;
    }
    if let Some(u) = p.panic_uid {
        if !insts.is_empty() && unlimited.handled.iter().any(|h| h.0 == u as usize % insts.len()) {
            info.probe("handler_panic_caught_by_the_driver");
        }
    }
    let lim = run_plain(p, true);
    if let Some(e) = &lim.escaped_panic {
        info.violate(Violation::new("C11", "panic", format!("a panic or error escaped the limited run: {e}")));
        return;
    }
    let k = limit_prefix_len(p, &unlimited.handled);
    let expect = &unlimited.handled[..k];
    if lim.handled.len() != k || lim.handled.iter().zip(expect.iter()).any(|(a, b)| a.0 != b.0) {
        let pos = lim.handled.iter().zip(expect.iter()).position(|(a, b)| a.0 != b.0).unwrap_or(lim.handled.len().min(k));
        info.violate(Violation::new("C11", "limit-prefix", format!(
            "limited run handled {} events, the limit admits exactly the first {k} of the unlimited sequence (first difference at position {pos})", lim.handled.len()))
            .fact("handled", lim.handled.len() as i64).fact("admitted", k as i64));
        return;
    }
    if lim.event_count != k {
        info.violate(Violation::new("C11", "limit-count", format!("profiler reports {} events, {k} were handled", lim.event_count)));
        return;
    }
    let expect_end = expect.last().map_or(start, |h| h.1);
    if lim.end_time != expect_end {
        info.violate(Violation::new("C11", "limit-end-time", format!("limited run returned {} ns, last handled timestamp is {expect_end} ns", lim.end_time)));
        return;
    }
    let mut rem = lim.remaining.clone();
    rem.sort_unstable();
    let exp_rem = scheduled_by(expect, insts, roots);
    if rem != exp_rem {
        let lost: Vec<_> = exp_rem.iter().filter(|e| !rem.contains(e)).take(3).collect();
        let extra: Vec<_> = rem.iter().filter(|e| !exp_rem.contains(e)).take(3).collect();
        info.violate(Violation::new("C11", "limit-remaining", format!(
            "remaining events differ from the undelivered ones: {} returned, {} expected; missing {lost:?}, unexpected {extra:?}", rem.len(), exp_rem.len())));
        return;
    }
    // the run has stopped at its limit; the driver adds an event for the reported time and dispatches again
    if p.resume_add && p.panic_uid.is_none() {
        let r = std::panic::catch_unwind(std::panic::AssertUnwindSafe(|| {
            let mut rt = make_runtime(p, true);
            rt.start();
            rt.dispatch_all();
            let k1 = rt.app.log.handled.len();
            let now = ns_of(rt.sim_time());
            rt.add_event(Ev { uid: EXT_BASE }, st(now));
            rt.dispatch_all();
            let handled = rt.app.log.handled.clone();
            let fin = finish_real(rt.finish());
            (k1, now, handled, fin)
        }));
        match r {
            Ok((k1, now, handled, fin)) => {
                info.probe("event_added_after_the_limit_stopped_the_run");
                if k1 == k {
                    let admitted = !calls_stop(&p.limits, k as u64 + 1, now);
                    let ran = handled.get(k).map_or(false, |h| h.0 == EXT_BASE);
                    let extra = handled.len().saturating_sub(k + usize::from(ran));
                    let in_remaining = fin.remaining.iter().any(|e| e.0 == EXT_BASE);
                    if admitted != ran || extra != 0 || in_remaining == ran {
                        info.violate(Violation::new("C11", "limit-resume", format!(
                            "the limited run stopped after {k} events at {now} ns; an event added for {now} ns {} admitted by the limit, it {} dispatched ({} further events were dispatched, returned as remaining: {in_remaining})",
                            if admitted { "is" } else { "is not" }, if ran { "was" } else { "was not" }, extra)));
                        return;
                    }
                }
            }
            Err(pl) => {
                let (msg, loc) = crate::take_panic(pl);
                info.violate(Violation::new("C11", "panic", format!("adding an event after the limit stopped the run and dispatching again panicked: {msg} at {loc}")));
                return;
            }
        }
    }
    let total = unlimited.handled.len();
    let boundary = p.limits.iter().any(|c| match c {
        LimCall::MaxItr { n } => *n as usize == total,
        LimCall::MaxTime { ns } => unlimited.handled.iter().any(|h| h.1 == *ns),
        LimCall::Limit { .. } => false,
    });
    if k < total {
        info.probe("limit_stopped_run");
    }
    if boundary {
        info.probe("limit_on_boundary");
    }
    info.nontrivial = k < total || boundary;
}

/// What is pending according to the program, given what the real run has handled so far
/// (order independent: every instance has a static timestamp).
fn pending_now(handled: &[(usize, u64)], ext: &[(usize, u64)], insts: &[Inst], roots: &[usize]) -> Vec<(usize, u64)> {
    let mut set = scheduled_by(handled, insts, roots);
    let done: std::collections::BTreeSet<usize> = handled.iter().map(|h| h.0).collect();
    for e in ext {
        if !done.contains(&e.0) {
            set.push(*e);
        }
    }
    set
}

fn static_time(uid: usize, insts: &[Inst], ext: &[(usize, u64)]) -> u64 {
    if uid >= EXT_BASE {
        ext.iter().find(|e| e.0 == uid).map_or(0, |e| e.1)
    } else {
        insts.get(uid).map_or(0, |i| i.time)
    }
}

#[allow(clippy::too_many_lines)]
fn check_c10(p: &RtProgram, insts: &[Inst], roots: &[usize], start: u64, model: &Model, unint: &RealRun, info: &mut RunInfo) {
    if unint.escaped_panic.is_some() || !unint.rejected.is_empty() {
        return;
    }
    // expectations between steps come from the static timestamps of the program; if the uninterrupted run did
    // not run every event at its timestamp (C02's statement) there is nothing to compare a stepped run with
    if unint.handled.iter().any(|(uid, clock)| insts.get(*uid).map_or(true, |i| i.time != *clock)) {
        return;
    }
    let _ = model;
    let tcap = p.t_ns.max(1);
    let mut cut_with_pending = false;
    let mut ext_adds = 0u64;
    let mut ext_list: Vec<(usize, u64)> = Vec::new();
    let mut probes: Vec<&'static str> = Vec::new();

    let res = std::panic::catch_unwind(std::panic::AssertUnwindSafe(|| -> Result<RealRun, Violation> {
        let mut rt = make_runtime(p, false);
        rt.start();
        for (si, step) in p.steps.iter().enumerate() {
            let before: Vec<(usize, u64)> = rt.app.log.handled.clone();
            let pend_before = pending_now(&before, &ext_list, insts, roots);
            let reported = before.last().map_or(start, |h| static_time(h.0, insts, &ext_list));
            let next = pend_before.iter().map(|p| p.1).min();
            let mut until: Option<u64> = None;
            let mut nk: Option<usize> = None;
            match step {
                Step::N { k } => {
                    let k = (*k).min(1000) as usize;
                    nk = Some(k);
                    rt.dispatch_n_events(k);
                }
                Step::Until { kind, a } => {
                    let t = match (kind % 5, next) {
                        (0, Some(nt)) => nt,
                        (1, Some(nt)) => nt.saturating_sub(1).max(reported),
                        (2, Some(nt)) => nt + cap_delta(*a, tcap),
                        (3, _) => reported.saturating_sub(*a % 1000),
                        _ => reported + cap_delta(*a, tcap),
                    };
                    until = Some(t);
                    rt.dispatch_events_until(st(t));
                }
                Step::Add { kind, a } => {
                    let time = match (kind % 4, next) {
                        (0, _) => reported,
                        (1, Some(nt)) if nt > reported + 1 => reported + 1 + a % (nt - reported - 1),
                        (2, Some(nt)) => nt,
                        _ => reported + cap_delta(*a, tcap),
                    };
                    let uid = EXT_BASE + ext_list.len();
                    let r = std::panic::catch_unwind(std::panic::AssertUnwindSafe(|| {
                        rt.add_event(Ev { uid }, st(time));
                    }));
                    if r.is_err() {
                        let (msg, _) = crate::take_panic(Box::new(()));
                        return Err(Violation::new("C10", "paused-add-rejected", format!(
                            "step {si}: while paused at reported time {reported} ns, adding an event for {time} ns panicked: {msg}"))
                            .fact("time_minus_reported", (time - reported).min(i64::MAX as u64) as i64));
                    }
                    ext_list.push((uid, time));
                    ext_adds += 1;
                }
                Step::OtherBuilder { a } => drop(Builder::new().quiet().start_time(st(*a))),
            }
            // observations while paused, judged against what the run itself has handled so far
            let after: Vec<(usize, u64)> = rt.app.log.handled.clone();
            let pend_after = pending_now(&after, &ext_list, insts, roots);
            let d = rt.num_events_dispatched();
            let rem = rt.num_events_remaining();
            let now = ns_of(rt.sim_time());
            let done_in_step = after.len() - before.len();
            if d != after.len() {
                return Err(Violation::new("C10", "step-count", format!("after step {si} ({step:?}) num_events_dispatched() = {d} but {} events were handled", after.len())));
            }
            if let Some(k) = nk {
                let ok = done_in_step == k || (done_in_step < k && pend_after.is_empty());
                if !ok {
                    return Err(Violation::new("C10", "step-count", format!(
                        "step {si}: dispatch_n_events({k}) dispatched {done_in_step} events with {} still pending", pend_after.len())));
                }
            }
            if let Some(t) = until {
                if let Some(h) = after[before.len()..].iter().find(|h| static_time(h.0, insts, &ext_list) > t) {
                    return Err(Violation::new("C10", "step-until", format!(
                        "step {si}: dispatch_events_until({t} ns) dispatched event {} whose timestamp is {} ns", h.0, static_time(h.0, insts, &ext_list))));
                }
                if let Some(pnd) = pend_after.iter().find(|pnd| pnd.1 <= t) {
                    return Err(Violation::new("C10", "step-until", format!(
                        "step {si}: dispatch_events_until({t} ns) left event {} with timestamp {} ns undispatched", pnd.0, pnd.1)));
                }
            }
            if rem != pend_after.len() {
                return Err(Violation::new("C10", "step-remaining", format!(
                    "after step {si} ({step:?}) num_events_remaining() = {rem}, but {} scheduled events are undelivered", pend_after.len())));
            }
            let expect_now = after.last().map_or(start, |h| static_time(h.0, insts, &ext_list));
            if now != expect_now {
                return Err(Violation::new("C10", "step-time", format!(
                    "after step {si} ({step:?}) sim_time() = {now} ns, timestamp of the last dispatched event is {expect_now} ns")));
            }
            if !matches!(step, Step::Add { .. }) && pend_after.len() >= 2 {
                cut_with_pending = true;
                if pend_after.iter().any(|pnd| pnd.1 == expect_now) && !after.is_empty() {
                    probes.push("cut_inside_tie_group");
                }
            }
        }
        rt.dispatch_all();
        Ok(finish_real(rt.finish()))
    }));
    let stepped = match res {
        Ok(Ok(r)) => r,
        Ok(Err(v)) => {
            info.violate(v);
            return;
        }
        Err(pl) => {
            let (msg, loc) = crate::take_panic(pl);
            info.violate(Violation::new("C10", "panic", format!("stepping the runtime panicked: {msg} at {loc}")));
            return;
        }
    };
    for pr in probes {
        info.probe(pr);
    }
    if let Some(e) = &stepped.escaped_panic {
        info.violate(Violation::new("C10", "panic", format!("finish after stepping failed: {e}")));
        return;
    }
    // the events of the program: same events, same order, same times as in the uninterrupted run.
    // (externally added leaf events cannot change the relative order of the program's events; where exactly an
    // external event lands inside a group of equal timestamps is the tie rule's business - C03 - not checked here)
    let prog_events: Vec<(usize, u64)> = stepped.handled.iter().copied().filter(|h| h.0 < EXT_BASE).collect();
    if prog_events != unint.handled {
        let reference = &unint.handled;
        let pos = prog_events.iter().zip(reference.iter()).position(|(a, b)| a != b).unwrap_or(prog_events.len().min(reference.len()));
        let same_time = prog_events.get(pos).zip(reference.get(pos)).map_or(false, |(a, b)| a.1 == b.1);
        info.violate(Violation::new("C10", "stepped-order", format!(
            "stepped run diverges from the uninterrupted run at position {pos}: got {:?}, uninterrupted {:?} ({} vs {} events)",
            prog_events.get(pos), reference.get(pos), prog_events.len(), reference.len()))
            .fact("same_timestamp", i64::from(same_time)));
        return;
    }
    // externally added events: each handled exactly once, and the whole run in timestamp order
    let mut ext_got: Vec<usize> = stepped.handled.iter().map(|h| h.0).filter(|u| *u >= EXT_BASE).collect();
    ext_got.sort_unstable();
    let ext_exp: Vec<usize> = ext_list.iter().map(|e| e.0).collect();
    if ext_got != ext_exp {
        info.violate(Violation::new("C10", "external-event", format!(
            "events added while paused were not each handled exactly once: handled {ext_got:?}, added {ext_exp:?}")));
        return;
    }
    if !stepped.remaining.is_empty() {
        info.violate(Violation::new("C10", "stepped-remaining", format!("{} events left undelivered after dispatch_all", stepped.remaining.len())));
        return;
    }
    info.probe_n("external_add_while_paused", ext_adds);
    if cut_with_pending {
        info.probe("cut_with_two_or_more_pending");
    }
    info.nontrivial = cut_with_pending || ext_adds > 0;
}

// ---------------------------------------------------------------- generator

fn gen_lim(rng: &mut Rng, depth: u32, total: u64, times: &[u64]) -> Lim {
    let leaf = depth == 0 || rng.chance(1, 2);
    if leaf {
        match rng.below(7) {
            0 => Lim::None,
            1..=3 => Lim::Count { n: pick_count(rng, total) },
            _ => Lim::Time { ns: pick_time(rng, times) },
        }
    } else if rng.chance(1, 2) {
        Lim::And { a: Box::new(gen_lim(rng, depth - 1, total, times)), b: Box::new(gen_lim(rng, depth - 1, total, times)) }
    } else {
        Lim::Or { a: Box::new(gen_lim(rng, depth - 1, total, times)), b: Box::new(gen_lim(rng, depth - 1, total, times)) }
    }
}

fn pick_count(rng: &mut Rng, total: u64) -> u64 {
    match rng.below(6) {
        0 => 0,
        1 => 1,
        2 => total.saturating_sub(1),
        3 => total,
        4 => total + 1,
        _ => rng.below(total + 2),
    }
}

fn pick_time(rng: &mut Rng, times: &[u64]) -> u64 {
    if times.is_empty() {
        return rng.below(1000);
    }
    let i = rng.usize(times.len());
    match rng.below(5) {
        0 => times[0].saturating_sub(1 + rng.below(5)),
        1 => times[i],
        2 => times[i] + 1,
        3 => times[i].saturating_sub(1),
        _ => times[times.len() - 1] + rng.below(10),
    }
}

pub fn generate(prop: &str, rng: &mut Rng, tier: Tier) -> RtProgram {
    const NS: [usize; 9] = [1, 2, 3, 4, 8, 16, 64, 256, 1028];
    const NW: [u32; 9] = [8, 10, 8, 10, 8, 6, 5, 2, 6];
    const TS: [u64; 7] = [1, 7, 1_000, 1_000_000, 2_500_000, 1_000_000_000, 3_000_000_000];
    let n = NS[rng.weighted(&NW)];
    let t_ns = *rng.pick(&TS);
    let tie_heavy = prop == "C03" || rng.chance(1, 3);

    let start_ns = match rng.below(4) {
        0 | 1 => 0,
        2 => 1 + rng.below(t_ns.saturating_mul(3)),
        _ => rng.below(t_ns.saturating_mul(n as u64).saturating_mul(3).max(1)),
    };
    let start_ns = if prop == "C02" { start_ns } else if rng.chance(1, 4) { start_ns } else { 0 };

    let nspecs = 1 + rng.small(8) as usize;
    let gen_delay = |rng: &mut Rng| -> u64 {
        if tie_heavy && rng.chance(1, 2) {
            return if rng.chance(1, 2) { 0 } else { *rng.pick(&[t_ns, t_ns * 2, (n as u64).saturating_mul(t_ns)]) };
        }
        match rng.below(6) {
            0 => 0,
            1 => rng.below(t_ns.max(1)),
            2 => t_ns,
            3 => rng.below(t_ns.saturating_mul(4).max(1)),
            4 => (n as u64).saturating_mul(t_ns).saturating_mul(1 + rng.below(2)),
            _ => rng.below(t_ns.saturating_mul(n as u64).saturating_mul(2).max(1)),
        }
    };
    let mut specs = Vec::new();
    for _ in 0..nspecs {
        let nc = rng.small(4) as usize;
        let children = (0..nc).map(|_| (gen_delay(rng), rng.below(nspecs as u64) as u32)).collect();
        let past = if prop == "C02" && rng.chance(1, 6) { 1 + rng.below(t_ns.saturating_mul(2).max(2)) } else { 0 };
        specs.push(Spec { children, rel: rng.chance(1, 2), past });
    }
    let nroots = 1 + rng.small(if tie_heavy { 12 } else { 8 }) as usize;
    let mut roots = Vec::new();
    for _ in 0..nroots {
        let before_start = prop == "C02" && start_ns > 0 && rng.chance(1, 5);
        let delta = if before_start {
            match rng.below(3) {
                0 => 1,
                1 => start_ns,
                _ => 1 + rng.below(start_ns),
            }
        } else if tie_heavy && rng.chance(1, 2) {
            *rng.pick(&[0, t_ns, (n as u64).saturating_mul(t_ns)])
        } else {
            gen_delay(rng)
        };
        roots.push(Root { spec: rng.below(nspecs as u64) as u32, delta, before_start, at_start: rng.chance(1, 3), rel: rng.chance(1, 3) });
    }
    let max_instances = match tier {
        Tier::Quick => 2 + rng.small(120) as u32,
        Tier::Thorough => 2 + rng.small(300) as u32,
    };
    // now and then the whole program is stretched: its time unit is not the nanosecond but up to 1000 s, which moves
    // start time, timestamps and bucket width beyond 2^64 ns (584 simulated years) without changing the program
    let scale = if rng.chance(1, 12) { *rng.pick(&[7u64, 1_000, 1_000_000, 1_000_000_007, 1_000_000_000_000, 1_000_000_000_000]) } else { 1 };
    let mut prog = RtProgram { n, t_ns, scale, start_ns, specs, roots, max_instances, limits: vec![], steps: vec![], intruder: None, helper_reads: false, panic_uid: None, resume_add: false, epoch_ns: 0 };
    // very rarely the program is moved late into a long simulation (beyond 2^53 ns), keeping its nanosecond granularity
    if (prop == "C02" || prop == "C10" || prop == "C11") && t_ns >= 1_000_000_000 && scale == 1 && rng.chance(1, 5000) {
        prog.epoch_ns = *rng.pick(&[10_000_000_000_000_000u64, 18_014_398_509_481_984, 34_560_000_000_000_000]) + rng.below(1_000_000_000);
    }
    if prop == "C02" && rng.chance(1, 100) {
        prog.helper_reads = true;
    }
    if prop == "C02" && rng.chance(1, 150) {
        prog.intruder = Some((rng.below(64) as u32, if rng.chance(1, 2) { 0 } else { rng.below(t_ns.saturating_mul(1000).max(2)) }));
    }

    if (prop == "C11" && rng.chance(1, 10)) || (prop == "C02" && rng.chance(1, 15)) {
        prog.panic_uid = Some(rng.below(1 << 16) as u32);
    }
    if prop == "C11" && rng.chance(1, 8) {
        prog.resume_add = true;
    }
    if prop == "C11" {
        // limits are chosen knowing the timestamps of the program (static expansion)
        let (insts, _) = expand(&prog);
        let mut times: Vec<u64> = insts.iter().filter(|i| !i.past_root).map(|i| i.time).collect();
        times.sort_unstable();
        let total = times.len() as u64;
        let ncalls = 1 + rng.small(3) as usize;
        for _ in 0..ncalls {
            prog.limits.push(match rng.below(4) {
                0 => LimCall::MaxItr { n: pick_count(rng, total) },
                1 => LimCall::MaxTime { ns: pick_time(rng, &times) },
                _ => LimCall::Limit { lim: gen_lim(rng, 3, total, &times) },
            });
        }
    }
    if prop == "C02" && rng.chance(1, 3) {
        for _ in 0..1 + rng.small(8) {
            prog.steps.push(if rng.chance(1, 2) {
                Step::N { k: rng.small(5) }
            } else {
                Step::Until { kind: rng.below(3) as u8, a: rng.below(t_ns.saturating_mul(8).max(2)) }
            });
        }
    }
    if prop == "C03" && rng.chance(1, 3) {
        // the tie rule under stepping: pauses inside tie groups, events added from outside for the current instant and
        // for the timestamp of the next pending event
        for _ in 0..1 + rng.small(12) {
            prog.steps.push(match rng.weighted(&[4, 3, 5]) {
                0 => Step::N { k: rng.small(4) },
                1 => Step::Until { kind: rng.below(5) as u8, a: rng.below(t_ns.saturating_mul(4).max(2)) },
                _ => Step::Add { kind: *rng.pick(&[0u8, 2, 2, 2, 1, 3]), a: rng.below(t_ns.saturating_mul(4).max(2)) },
            });
        }
    }
    if prop == "C10" || prop == "C01" {
        let nsteps = 1 + rng.small(25) as usize;
        let with_adds = prop == "C01" || rng.chance(1, 2);
        for _ in 0..nsteps {
            let w_add = if with_adds { 3 } else { 0 };
            prog.steps.push(match rng.weighted(&[5, 4, w_add]) {
                0 => Step::N { k: if rng.chance(1, 8) { rng.below(400) } else { rng.small(6) } },
                1 => Step::Until { kind: rng.below(5) as u8, a: rng.below(t_ns.saturating_mul(8).max(2)) },
                _ if rng.chance(1, 10) => Step::OtherBuilder { a: rng.below(t_ns.saturating_mul(50).max(2)) },
                _ => Step::Add { kind: rng.below(4) as u8, a: rng.below(t_ns.saturating_mul(8).max(2)) },
            });
        }
    }
    prog
}
