//! Shared types: violations, per-run information, aggregate statistics.

use serde::{Deserialize, Serialize};
use std::collections::{BTreeMap, HashSet};
use std::hash::{Hash, Hasher};

#[derive(Clone, Copy, Debug, PartialEq, Eq)]
pub enum Tier {
    Quick,
    Thorough,
}

#[derive(Clone, Debug, Serialize, Deserialize)]
pub struct Violation {
    pub prop: String,
    pub rule: String,
    pub msg: String,
    /// Structural facts about the divergence, used to match known findings.
    #[serde(default)]
    pub facts: BTreeMap<String, i64>,
}

impl Violation {
    pub fn new(prop: &str, rule: &str, msg: impl Into<String>) -> Self {
        Violation {
            prop: prop.to_string(),
            rule: rule.to_string(),
            msg: msg.into(),
            facts: BTreeMap::new(),
        }
    }
    pub fn fact(mut self, k: &str, v: i64) -> Self {
        self.facts.insert(k.to_string(), v);
        self
    }
}

/// What one executed program produced.
#[derive(Default, Debug)]
pub struct RunInfo {
    pub violations: Vec<Violation>,
    pub nontrivial: bool,
    /// reach probes and fault counters (name -> how often it fired in this run)
    pub probes: BTreeMap<&'static str, u64>,
    /// hash of the abstracted trace (distinct interleavings measure)
    pub trace_hash: u64,
    /// additional distinct-state hashes reached in this run
    pub states: Vec<u64>,
    pub sim_time_ns: u128,
    pub events: u64,
    /// set when the run left process-global state unusable (worker must exit)
    pub tainted: bool,
}

impl RunInfo {
    pub fn probe(&mut self, name: &'static str) {
        *self.probes.entry(name).or_insert(0) += 1;
    }
    pub fn probe_n(&mut self, name: &'static str, n: u64) {
        if n > 0 {
            *self.probes.entry(name).or_insert(0) += n;
        }
    }
    pub fn violate(&mut self, v: Violation) {
        // keep the list bounded: first few per rule are enough
        if self.violations.len() < 16 {
            self.violations.push(v);
        }
    }
    pub fn has(&self, prop: &str) -> bool {
        self.violations.iter().any(|v| v.prop == prop)
    }
}

pub fn hash64<T: Hash>(t: &T) -> u64 {
    // DefaultHasher::new() uses fixed keys: deterministic across processes.
    #[allow(deprecated)]
    let mut h = std::hash::SipHasher::new();
    t.hash(&mut h);
    h.finish()
}

pub fn hash_str(s: &str) -> u64 {
    hash64(&s)
}

/// Incremental trace hasher (order sensitive).
#[derive(Clone, Debug)]
pub struct TraceHash(pub u64);
impl Default for TraceHash {
    fn default() -> Self {
        TraceHash(0xcbf2_9ce4_8422_2325)
    }
}
impl TraceHash {
    pub fn push(&mut self, x: u64) {
        self.0 ^= x.wrapping_add(0x9E37_79B9_7F4A_7C15).wrapping_add(self.0 << 6).wrapping_add(self.0 >> 2);
        self.0 = self.0.wrapping_mul(0x0000_0100_0000_01B3).rotate_left(23);
    }
}

#[derive(Default)]
pub struct Aggregate {
    pub evaluations: u64,
    pub nontrivial_runs: u64,
    pub nontrivial_hashes: HashSet<u64>,
    pub trace_hashes: HashSet<u64>,
    pub state_hashes: HashSet<u64>,
    pub probes: BTreeMap<String, u64>,
    pub sim_time_ns: u128,
    pub events: u64,
    pub samples: Vec<serde_json::Value>,
    pub known: BTreeMap<String, u64>,
}

#[derive(Clone, Debug, Deserialize)]
pub struct KnownFinding {
    pub id: String,
    pub property: String,
    pub status: String,
    pub rule: String,
    /// fact name -> {"eq": v} | {"ge": v} | {"le": v}
    #[serde(default)]
    pub predicate: BTreeMap<String, BTreeMap<String, i64>>,
    #[serde(default)]
    pub what: String,
}

impl KnownFinding {
    pub fn matches(&self, v: &Violation) -> bool {
        if self.status != "open" || self.property != v.prop || self.rule != v.rule {
            return false;
        }
        for (fact, cond) in &self.predicate {
            let Some(val) = v.facts.get(fact) else {
                return false;
            };
            for (op, rhs) in cond {
                let ok = match op.as_str() {
                    "eq" => val == rhs,
                    "ge" => val >= rhs,
                    "le" => val <= rhs,
                    "ne" => val != rhs,
                    _ => false,
                };
                if !ok {
                    return false;
                }
            }
        }
        true
    }
}

pub fn load_known(path: &str) -> Vec<KnownFinding> {
    #[derive(Deserialize)]
    struct File {
        findings: Vec<KnownFinding>,
    }
    match std::fs::read_to_string(path) {
        Ok(s) => match serde_json::from_str::<File>(&s) {
            Ok(f) => f.findings,
            Err(e) => {
                eprintln!("dsim: cannot parse {path}: {e}");
                std::process::exit(2);
            }
        },
        Err(_) => Vec::new(),
    }
}
