//! Engine `asy`: scripted async tasks inside modules (timers, select, wake chains).

use crate::net::NetProgram;
use serde::{Deserialize, Serialize};
use std::rc::Rc;

#[derive(Serialize, Deserialize, Clone, Debug, PartialEq, Eq, Hash, Default)]
pub struct TaskSpec {
    pub steps: Vec<u32>,
}

pub fn reset_run() {}

pub fn spawn_tasks(_m: usize, _inc: u16, _prog: &Rc<NetProgram>) {}

pub fn gen_tasks_c04(_rng: &mut crate::prng::Rng) -> Vec<TaskSpec> {
    Vec::new()
}

pub fn gen_tasks_c09(_rng: &mut crate::prng::Rng) -> Vec<TaskSpec> {
    Vec::new()
}
pub fn gen_tasks_c13(_rng: &mut crate::prng::Rng) -> Vec<TaskSpec> {
    Vec::new()
}
pub fn gen_tasks_c20(_rng: &mut crate::prng::Rng) -> Vec<TaskSpec> {
    Vec::new()
}
