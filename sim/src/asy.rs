//! Engine `asy`: scripted async tasks inside modules (timers, select, wake chains) running on the real
//! per-module tokio runtime and the real des time driver; plus the virtual-time evaluator of the scripts.

use crate::bodies::Token;
use crate::common::*;
use crate::net::{module_path, normalise, rec, Ev, NetProgram, NetResult};
use crate::prng::Rng;
use des::prelude::*;
use des::time::{interval, timeout, MissedTickBehavior, Sleep};
use serde::{Deserialize, Serialize};
use std::cell::RefCell;
use std::collections::BTreeMap;
use std::future::Future;
use std::pin::Pin;
use std::rc::Rc;
use std::task::{Context, Poll};
use std::time::Duration;
use tokio::sync::mpsc;

#[derive(Serialize, Deserialize, Clone, Debug, PartialEq, Eq, Hash)]
#[serde(tag = "s")]
pub enum AStep {
    /// the task sends a message on a gate of its module
    Emit { gate: u32 },
    Sleep { d: u64 },
    /// relative to the start of the incarnation
    SleepUntil { at: u64 },
    /// inner: 0 = sleep(d2), 1 = ready, 2 = never; `at` = use timeout_at(now + d, ..)
    /// `at`: `timeout_at(now + d, ..)`; `at` and `back`: `timeout_at(now - d, ..)`, a deadline that has passed already
    Timeout { d: u64, inner: u8, d2: u64, #[serde(default)] at: bool, #[serde(default)] back: bool },
    Select { ds: Vec<u64> },
    /// pinned sleep(d0), optionally polled once, then reset to now + d1 and awaited
    Reset { d0: u64, d1: u64, poll_first: bool },
    /// behaviour: 0 burst, 1 delay, 2 skip; after each tick the task sleeps `work`; `off` > 0 = interval_at(now + off, ..)
    /// `work` is slept after every tick, or (`once`) only after the first one: the remaining ticks then catch up in one poll
    /// `back`: the interval is created with `interval_at(now - back, period)`, i.e. with a first deadline in the past
    Interval { period: u64, behaviour: u8, ticks: u8, work: u64, #[serde(default)] off: u64, #[serde(default)] once: bool, #[serde(default)] back: u64 },
    /// wake task `to` of the same module
    Notify { to: u16 },
    /// wait for one notification
    Wait,
    Random,
    Panic,
    /// select over two branches that are both ready: logs which one was taken (C04)
    SelectReady,
    /// two timeouts with the same deadline awaited concurrently in one task:
    /// join!(timeout(d, sleep(d2)), timeout(d, pending)) - the first loses its delay timer early (d2 < d)
    JoinTimeouts { d: u64, d2: u64 },
    Shutdown { restart: i64 },
}

#[derive(Serialize, Deserialize, Clone, Debug, PartialEq, Eq, Hash, Default)]
pub struct TaskSpec {
    /// spawn_local instead of tokio::spawn
    pub local: bool,
    /// 0 = not joined, 1 = ModuleContext::join, 2 = try_join
    pub join: u8,
    pub steps: Vec<AStep>,
}

// task record codes
pub const T_DONE: u32 = 0;
pub const T_OK: u32 = 1;
pub const T_ELAPSED: u32 = 2;
pub const T_BRANCH: u32 = 10; // + branch index
pub const T_TICK: u32 = 100; // + tick number
pub const T_RAND: u32 = 200;
pub const T_FINISHED: u32 = 300;
pub const T_READY_BRANCH: u32 = 400;

thread_local! {
    /// task polls since the start of the current module event, and the maximum seen per module
    static POLLS: RefCell<u64> = const { RefCell::new(0) };
    static MAX_POLLS: RefCell<BTreeMap<usize, u64>> = const { RefCell::new(BTreeMap::new()) };
    static TOTAL_POLLS: RefCell<u64> = const { RefCell::new(0) };
}

thread_local! {
    /// inbox senders of the tasks of every module (current incarnation)
    static INBOXES: RefCell<BTreeMap<usize, Vec<mpsc::UnboundedSender<()>>>> = const { RefCell::new(BTreeMap::new()) };
}

/// wakes task `to % ntasks` of module `m` (used by scripted handlers and processing elements)
pub fn notify_task(m: usize, to: usize) {
    INBOXES.with(|i| {
        if let Some(v) = i.borrow().get(&m) {
            if !v.is_empty() {
                let _ = v[to % v.len()].send(());
            }
        }
    });
}

thread_local! {
    /// fault: the timer futures of this run are created on helper threads (one fresh thread per timer) and handed to the
    /// task that awaits them - timers are `Send`, and nothing ties their creation to the thread that runs the simulation
    static ELSEWHERE: std::cell::Cell<bool> = const { std::cell::Cell::new(false) };
    static MADE_ELSEWHERE: std::cell::Cell<u64> = const { std::cell::Cell::new(0) };
}
pub fn set_timers_elsewhere(v: bool) {
    ELSEWHERE.with(|e| e.set(v));
    MADE_ELSEWHERE.with(|e| e.set(0));
}
pub fn timers_made_elsewhere() -> u64 {
    MADE_ELSEWHERE.with(|e| e.get())
}
/// helper threads per run: enough to cover every timer of an ordinary program, bounded so that the very large programs of
/// the thorough tier do not spend their time creating threads
const MAX_ELSEWHERE: u64 = 256;
fn sleep(d: Duration) -> Sleep {
    if ELSEWHERE.with(|e| e.get()) && timers_made_elsewhere() < MAX_ELSEWHERE {
        MADE_ELSEWHERE.with(|e| e.set(e.get() + 1));
        std::thread::scope(|s| s.spawn(move || des::time::sleep(d)).join()).expect("helper thread")
    } else {
        des::time::sleep(d)
    }
}
fn sleep_until(t: SimTime) -> Sleep {
    if ELSEWHERE.with(|e| e.get()) && timers_made_elsewhere() < MAX_ELSEWHERE {
        MADE_ELSEWHERE.with(|e| e.set(e.get() + 1));
        std::thread::scope(|s| s.spawn(move || des::time::sleep_until(t)).join()).expect("helper thread")
    } else {
        des::time::sleep_until(t)
    }
}

pub fn reset_run() {
    INBOXES.with(|i| i.borrow_mut().clear());
    POLLS.with(|p| *p.borrow_mut() = 0);
    TOTAL_POLLS.with(|p| *p.borrow_mut() = 0);
    MAX_POLLS.with(|p| p.borrow_mut().clear());
}

/// called at the start of every module event (from the harness processing element / module callbacks)
pub fn event_boundary() {
    POLLS.with(|p| *p.borrow_mut() = 0);
}

pub fn max_polls() -> BTreeMap<usize, u64> {
    MAX_POLLS.with(|p| p.borrow().clone())
}
pub fn total_polls() -> u64 {
    TOTAL_POLLS.with(|p| *p.borrow())
}

struct Counted<F> {
    m: usize,
    inner: Pin<Box<F>>,
}
impl<F: Future> Future for Counted<F> {
    type Output = F::Output;
    fn poll(mut self: Pin<&mut Self>, cx: &mut Context<'_>) -> Poll<F::Output> {
        let n = POLLS.with(|p| {
            let mut p = p.borrow_mut();
            *p += 1;
            *p
        });
        TOTAL_POLLS.with(|p| *p.borrow_mut() += 1);
        let m = self.m;
        // (twin mode of C13: the tasks of a module that has "fallen silent" do not run any further)
        if crate::net::twin_mode() && crate::net::module_is_silent(m) {
            return Poll::Pending;
        }
        MAX_POLLS.with(|mp| {
            let mut mp = mp.borrow_mut();
            let e = mp.entry(m).or_insert(0);
            *e = (*e).max(n);
        });
        self.inner.as_mut().poll(cx)
    }
}
// the harness is single threaded; tokio::spawn needs Send
unsafe impl<F> Send for Counted<F> {}

struct SendToken(#[allow(dead_code)] Token, #[allow(dead_code)] Option<Lease>);
unsafe impl Send for SendToken {}

/// State captured by a task that "gives something back" when it is dropped: its destructor looks its module up in the
/// global view of the simulation, if that still exists (whenever the task ends: completion, shutdown of its module, or
/// the drop of the whole simulation)
struct Lease {
    globals: std::sync::Weak<des::net::Globals>,
    /// every other task keeps the global view itself (`let g = globals();` held across an await)
    #[allow(dead_code)]
    keep: Option<std::sync::Arc<des::net::Globals>>,
    path: String,
}
impl Drop for Lease {
    fn drop(&mut self) {
        if let Some(g) = self.globals.upgrade() {
            let _ = g.get(&des::net::ObjectPath::from(self.path.as_str()));
        }
    }
}

fn now_ns() -> u64 {
    SimTime::now().as_nanos() as u64
}

/// the three largest values stand for durations at the edge of the type: Duration::MAX, u64::MAX seconds, Duration::MAX - 1 ns
fn huge_duration(d: u64) -> Duration {
    match d {
        u64::MAX => Duration::MAX,
        x if x == u64::MAX - 1 => Duration::from_secs(u64::MAX),
        x if x == u64::MAX - 2 => Duration::MAX - Duration::from_nanos(1),
        x => Duration::from_nanos(x),
    }
}

async fn run_task(m: usize, ti: usize, inc: u16, start_ns: u64, spec: TaskSpec, inbox: mpsc::UnboundedReceiver<()>, outs: Vec<mpsc::UnboundedSender<()>>, _token: SendToken) {
    let mut inbox = inbox;
    let log = |step: usize, code: u32, val: u64| rec(m, Ev::Task { task: ti as u16, step: step as u16, inc, code, val });
    for (si, st) in spec.steps.iter().enumerate() {
        match st {
            AStep::Sleep { d } => {
                sleep(Duration::from_nanos(*d)).await;
                log(si, T_DONE, 0);
            }
            AStep::SleepUntil { at } => {
                sleep_until(SimTime::from_duration(Duration::from_nanos(start_ns + at))).await;
                log(si, T_DONE, 0);
            }
            AStep::Timeout { d, inner, d2, at, back } => {
                let dur = huge_duration(*d);
                let ok = if *at && *d < u64::MAX - 2 {
                    let now = SimTime::now();
                    let dl = if *back && now.as_nanos() >= u128::from(*d) { SimTime::from_duration(*now - dur) } else { now + dur };
                    match inner % 3 {
                        0 => des::time::timeout_at(dl, sleep(Duration::from_nanos(*d2))).await.is_ok(),
                        1 => des::time::timeout_at(dl, std::future::ready(())).await.is_ok(),
                        _ => des::time::timeout_at(dl, std::future::pending::<()>()).await.is_ok(),
                    }
                } else {
                    match inner % 4 {
                        0 => timeout(dur, sleep(Duration::from_nanos(*d2))).await.is_ok(),
                        1 => timeout(dur, std::future::ready(())).await.is_ok(),
                        2 => timeout(dur, std::future::pending::<()>()).await.is_ok(),
                        // an idle timer: created as a far-future sleep, then armed (reset) for now + d2
                        _ => {
                            let d2 = Duration::from_nanos(*d2);
                            timeout(dur, async move {
                                let s = sleep(Duration::MAX);
                                tokio::pin!(s);
                                s.as_mut().reset(SimTime::now() + d2);
                                s.await;
                            })
                            .await
                            .is_ok()
                        }
                    }
                };
                log(si, if ok { T_OK } else { T_ELAPSED }, 0);
            }
            AStep::Select { ds } => {
                let d = |i: usize| Duration::from_nanos(ds.get(i).copied().unwrap_or(0));
                let branch = match ds.len() {
                    0 | 1 => {
                        sleep(d(0)).await;
                        0
                    }
                    2 => tokio::select! {
                        () = sleep(d(0)) => 0,
                        () = sleep(d(1)) => 1,
                    },
                    _ => tokio::select! {
                        () = sleep(d(0)) => 0,
                        () = sleep(d(1)) => 1,
                        () = sleep(d(2)) => 2,
                    },
                };
                log(si, T_BRANCH + branch, 0);
            }
            AStep::Reset { d0, d1, poll_first } => {
                let s = sleep(huge_duration(*d0));
                tokio::pin!(s);
                if *poll_first {
                    // poll once so that the timer is registered, then leave through the ready branch
                    tokio::select! {
                        biased;
                        () = &mut s => {},
                        () = std::future::ready(()) => {},
                    }
                }
                s.as_mut().reset(SimTime::now() + Duration::from_nanos(*d1));
                s.await;
                log(si, T_DONE, 0);
            }
            AStep::Interval { period, behaviour, ticks, work, off, once, back } => {
                let now = SimTime::now();
                let mut iv = if *back > 0 && now.as_nanos() >= u128::from(*back) {
                    des::time::interval_at(SimTime::from_duration(*now - Duration::from_nanos(*back)), Duration::from_nanos((*period).max(1)))
                } else if *off > 0 {
                    des::time::interval_at(SimTime::now() + Duration::from_nanos(*off), Duration::from_nanos((*period).max(1)))
                } else {
                    interval(Duration::from_nanos((*period).max(1)))
                };
                iv.set_missed_tick_behavior(match behaviour % 3 {
                    0 => MissedTickBehavior::Burst,
                    1 => MissedTickBehavior::Delay,
                    _ => MissedTickBehavior::Skip,
                });
                for k in 0..*ticks {
                    let inst = iv.tick().await;
                    log(si, T_TICK + u32::from(k).min(99), inst.as_nanos() as u64);
                    if *work > 0 && (!*once || k == 0) {
                        sleep(Duration::from_nanos(*work)).await;
                    }
                }
            }
            AStep::Emit { gate } => {
                crate::net::task_emit(m, ti, si, inc, *gate);
                log(si, T_DONE, 0);
            }
            AStep::Notify { to } => {
                if !outs.is_empty() {
                    let _ = outs[*to as usize % outs.len()].send(());
                }
                log(si, T_DONE, 0);
            }
            AStep::Wait => {
                let _ = inbox.recv().await;
                log(si, T_DONE, 0);
            }
            AStep::Random => {
                let v: u64 = random();
                log(si, T_RAND, v);
            }
            AStep::SelectReady => {
                let b = tokio::select! {
                    () = std::future::ready(()) => 0,
                    () = std::future::ready(()) => 1,
                    () = std::future::ready(()) => 2,
                };
                log(si, T_READY_BRANCH + b, 0);
            }
            AStep::JoinTimeouts { d, d2 } => {
                let dur = Duration::from_nanos(*d);
                let (a, b) = tokio::join!(timeout(dur, sleep(Duration::from_nanos(*d2))), timeout(dur, std::future::pending::<()>()));
                log(si, 500 + u32::from(a.is_ok()) * 2 + u32::from(b.is_ok()), 0);
            }
            AStep::Panic => {
                if crate::net::twin_mode() {
                    return;
                }
                rec(m, Ev::PanicNow);
                panic!("scripted panic in task {ti} of module {m}");
            }
            AStep::Shutdown { restart } => {
                if inc >= crate::net::MAX_CYCLES {
                    continue;
                }
                rec(m, Ev::ShutdownReq { restart: *restart });
                if *restart < 0 {
                    current().shutdown();
                } else {
                    current().shutdow_and_restart_in(Duration::from_nanos(*restart as u64));
                }
                log(si, T_DONE, 0);
            }
        }
    }
    log(spec.steps.len(), T_FINISHED, 0);
}

pub fn spawn_tasks(m: usize, inc: u16, prog: &Rc<NetProgram>) {
    let specs = prog.modules[m].tasks.clone();
    if specs.is_empty() {
        return;
    }
    let start = now_ns();
    let mut txs = Vec::new();
    let mut rxs = Vec::new();
    for _ in &specs {
        let (tx, rx) = mpsc::unbounded_channel::<()>();
        txs.push(tx);
        rxs.push(rx);
    }
    INBOXES.with(|i| {
        i.borrow_mut().insert(m, txs.clone());
    });
    for (ti, (spec, rx)) in specs.into_iter().zip(rxs.into_iter()).enumerate().take(6000) {
        let lease = if prog.leases { Some(Lease { globals: std::sync::Arc::downgrade(&des::net::globals()), keep: if (m + ti) % 2 == 0 { Some(des::net::globals()) } else { None }, path: crate::net::module_path(prog, m) }) } else { None };
        let fut = Counted { m, inner: Box::pin(run_task(m, ti, inc, start, spec.clone(), rx, txs.clone(), SendToken(Token::task(), lease))) };
        let handle = if spec.local { tokio::task::spawn_local(fut) } else { tokio::spawn(fut) };
        match spec.join {
            1 => current().join(handle),
            2 => current().try_join(handle),
            _ => drop(handle),
        }
    }
}

// ---------------------------------------------------------------- virtual-time evaluator

#[derive(Clone, Debug, PartialEq, Eq)]
pub struct Expect {
    pub task: usize,
    pub step: usize,
    pub time: u64,
    /// acceptable codes
    pub codes: Vec<u32>,
    /// expected `val` for interval ticks
    pub val: Option<u64>,
}

struct TState {
    pc: usize,
    /// sub-state of the current step
    sub: u32,
    wake: Option<u64>,
    waiting_inbox: bool,
    inbox: u64,
    done: bool,
    // interval
    iv_deadline: u64,
}

/// Expected completion instants of every step of every task of one module incarnation started at `start`.
/// Only defined for scripts without Shutdown / Panic steps (those end the evaluation of the task).
pub fn evaluate(tasks: &[TaskSpec], start: u64, ext: &[(u64, usize)]) -> Vec<Expect> {
    let n = tasks.len();
    let mut ext: Vec<(u64, usize)> = ext.iter().copied().filter(|e| e.0 >= start).collect();
    ext.sort_unstable();
    let mut ext_i = 0usize;
    let mut st: Vec<TState> = (0..n).map(|_| TState { pc: 0, sub: 0, wake: Some(start), waiting_inbox: false, inbox: 0, done: false, iv_deadline: 0 }).collect();
    let mut out = Vec::new();
    let mut now = start;
    let mut guard = 0u64;
    loop {
        // notifications from the module's handlers / elements that happen at this instant
        while ext_i < ext.len() && ext[ext_i].0 <= now {
            if n > 0 {
                st[ext[ext_i].1 % n].inbox += 1;
            }
            ext_i += 1;
        }
        // run everything that can progress at `now` until nothing moves any more
        let mut progressed = true;
        while progressed {
            progressed = false;
            for ti in 0..n {
                loop {
                    guard += 1;
                    if guard > 5_000_000 {
                        return out;
                    }
                    let s = &mut st[ti];
                    if s.done {
                        break;
                    }
                    if s.waiting_inbox {
                        if s.inbox > 0 {
                            s.inbox -= 1;
                            s.waiting_inbox = false;
                            out.push(Expect { task: ti, step: s.pc, time: now, codes: vec![T_DONE], val: None });
                            s.pc += 1;
                            s.wake = Some(now);
                        } else {
                            break;
                        }
                    }
                    match s.wake {
                        Some(w) if w <= now => {}
                        _ => break,
                    }
                    if s.pc >= tasks[ti].steps.len() {
                        out.push(Expect { task: ti, step: s.pc, time: now, codes: vec![T_FINISHED], val: None });
                        s.done = true;
                        progressed = true;
                        break;
                    }
                    progressed = true;
                    let step = tasks[ti].steps[s.pc].clone();
                    let pc = s.pc;
                    match step {
                        AStep::Sleep { d } => {
                            if s.sub == 0 && d > 0 {
                                s.sub = 1;
                                s.wake = Some(now + d);
                            } else {
                                out.push(Expect { task: ti, step: pc, time: now, codes: vec![T_DONE], val: None });
                                s.sub = 0;
                                s.pc += 1;
                            }
                        }
                        AStep::SleepUntil { at } => {
                            let t = start + at;
                            if s.sub == 0 && t > now {
                                s.sub = 1;
                                s.wake = Some(t);
                            } else {
                                out.push(Expect { task: ti, step: pc, time: now, codes: vec![T_DONE], val: None });
                                s.sub = 0;
                                s.pc += 1;
                            }
                        }
                        AStep::Timeout { d, inner, d2, at, back } => {
                            // a deadline that has passed already: the inner future is polled once, then the time-out elapses
                            // (decided when the step starts, not when the evaluation comes back to it at its completion)
                            let d = if at && back && s.sub == 0 && d < u64::MAX - 2 && now >= d { 0 } else { d };
                            // inner result iff the inner future completes no later than the deadline
                            let (dt, code) = match if at { inner % 3 } else { inner % 4 } {
                                0 | 3 => {
                                    if d2 <= d {
                                        (d2, T_OK)
                                    } else {
                                        (d, T_ELAPSED)
                                    }
                                }
                                1 => (0, T_OK),
                                _ => (d, T_ELAPSED),
                            };
                            // (a time-out at the edge of the duration type never elapses)
                            let dt = if dt >= u64::MAX - 2 { u64::MAX / 4 } else { dt };
                            if s.sub == 0 && dt > 0 {
                                s.sub = 1;
                                s.wake = Some(now + dt);
                            } else {
                                out.push(Expect { task: ti, step: pc, time: now, codes: vec![code], val: None });
                                s.sub = 0;
                                s.pc += 1;
                            }
                        }
                        AStep::Select { ds } => {
                            let ds: Vec<u64> = if ds.is_empty() { vec![0] } else { ds.iter().copied().take(3).collect() };
                            let min = *ds.iter().min().unwrap();
                            if s.sub == 0 && min > 0 {
                                s.sub = 1;
                                s.wake = Some(now + min);
                            } else {
                                let codes = ds.iter().enumerate().filter(|(_, d)| **d == min).map(|(i, _)| T_BRANCH + i as u32).collect();
                                out.push(Expect { task: ti, step: pc, time: now, codes, val: None });
                                s.sub = 0;
                                s.pc += 1;
                            }
                        }
                        AStep::Reset { d1, .. } => {
                            if s.sub == 0 && d1 > 0 {
                                s.sub = 1;
                                s.wake = Some(now + d1);
                            } else {
                                out.push(Expect { task: ti, step: pc, time: now, codes: vec![T_DONE], val: None });
                                s.sub = 0;
                                s.pc += 1;
                            }
                        }
                        AStep::Interval { period, behaviour, ticks, work, off, once, back } => {
                            let period = period.max(1);
                            // sub: 0 = not created; 1 + 2k = waiting for tick k; 2 + 2k = working after tick k
                            if s.sub == 0 {
                                // created now: the first tick is due immediately, at now + off, or was due at now - back
                                s.iv_deadline = if back > 0 && now >= back { now - back } else { now + off };
                                s.sub = 1;
                            }
                            let k = (s.sub - 1) / 2;
                            if (s.sub - 1) % 2 == 1 {
                                // work finished (we were woken): wait for the next tick
                                s.sub += 1;
                                continue;
                            }
                            if k >= u32::from(ticks) {
                                s.sub = 0;
                                s.pc += 1;
                                continue;
                            }
                            if s.iv_deadline > now {
                                s.wake = Some(s.iv_deadline);
                                break;
                            }
                            let d = s.iv_deadline;
                            out.push(Expect { task: ti, step: pc, time: now, codes: vec![T_TICK + k.min(99)], val: Some(d) });
                            s.iv_deadline = if now > d {
                                match behaviour % 3 {
                                    0 => d + period,
                                    1 => now + period,
                                    _ => now + period - ((now - d) % period),
                                }
                            } else {
                                d + period
                            };
                            if work > 0 && (!once || k == 0) {
                                s.wake = Some(now + work);
                                s.sub += 1;
                            } else {
                                s.sub += 2;
                            }
                        }
                        AStep::Emit { .. } => {
                            out.push(Expect { task: ti, step: pc, time: now, codes: vec![T_DONE], val: None });
                            s.pc += 1;
                        }
                        AStep::Notify { to } => {
                            let to = to as usize % n;
                            st[to].inbox += 1;
                            let s = &mut st[ti];
                            out.push(Expect { task: ti, step: pc, time: now, codes: vec![T_DONE], val: None });
                            s.pc += 1;
                        }
                        AStep::Wait => {
                            s.waiting_inbox = true;
                        }
                        AStep::Random => {
                            out.push(Expect { task: ti, step: pc, time: now, codes: vec![T_RAND], val: None });
                            s.pc += 1;
                        }
                        AStep::SelectReady => {
                            out.push(Expect { task: ti, step: pc, time: now, codes: vec![T_READY_BRANCH, T_READY_BRANCH + 1, T_READY_BRANCH + 2], val: None });
                            s.pc += 1;
                        }
                        AStep::JoinTimeouts { d, d2 } => {
                            // completes when the second timeout elapses (at d); the first is Ok iff d2 <= d
                            if s.sub == 0 && d > 0 {
                                s.sub = 1;
                                s.wake = Some(now + d);
                            } else {
                                let first_ok = d2 <= d;
                                out.push(Expect { task: ti, step: pc, time: now, codes: vec![500 + u32::from(first_ok) * 2], val: None });
                                s.sub = 0;
                                s.pc += 1;
                            }
                        }
                        AStep::Panic | AStep::Shutdown { .. } => {
                            s.done = true;
                        }
                    }
                }
            }
        }
        // advance to the next timer deadline
        let next_timer = st.iter().filter(|s| !s.done && !s.waiting_inbox).filter_map(|s| s.wake).filter(|w| *w > now).min();
        let next_ext = ext.get(ext_i).map(|e| e.0);
        let next = match (next_timer, next_ext) {
            (Some(a), Some(b)) => Some(a.min(b)),
            (a, b) => a.or(b),
        };
        match next {
            Some(t) => now = t,
            None => break,
        }
    }
    out
}

fn finite(tasks: &[TaskSpec]) -> bool {
    !tasks.iter().any(|t| t.steps.iter().any(|s| matches!(s, AStep::Panic | AStep::Shutdown { .. })))
}

/// Compares the task records of fault-free modules with the evaluator. `prop` selects which rule names are used.
pub fn check_tasks(prog: &NetProgram, res: &NetResult, prop: &str, info: &mut RunInfo) {
    let prog = &normalise(prog);
    if let Some(e) = &res.escaped_panic {
        info.violate(Violation::new(prop, "panic", format!("building or running the model panicked: {e}")));
        return;
    }
    // des module blocks (C06): every message offered to the block's gate is answered in the instant it arrives
    if prop == "C06" && prog.blocks.first() == Some(&5) {
        let limit_stopped = res.ok.map_or(true, |o| o.2 > 0);
        if !limit_stopped && !res.trace.iter().any(|r| matches!(r.ev, Ev::PanicNow | Ev::ShutdownReq { .. })) {
            for r in &res.trace {
                if let Ev::Offer { uid, gate: 0, delay_ns: 0, .. } = &r.ev {
                    if r.m != 0 {
                        continue;
                    }
                    info.probe("block_handler_awaits_spawned_worker");
                    let done: Vec<u64> = res.block_log.iter().filter(|b| b.2 == *uid).map(|b| b.0).collect();
                    match done.first() {
                        None => {
                            info.violate(Violation::new("C06", "never-resumed", format!(
                                "the AsyncFn block received message {uid:#x} at {} ns; its handler awaits a worker task it spawned and never continued", r.t)));
                            return;
                        }
                        Some(t) if *t != r.t => {
                            info.violate(Violation::new("C06", "resumed-late", format!(
                                "the AsyncFn block received message {uid:#x} at {} ns; its handler awaits a worker task it spawned and continued only at {t} ns", r.t)));
                            return;
                        }
                        _ => {}
                    }
                }
            }
            info.nontrivial = !res.block_log.is_empty();
        }
        return;
    }
    let maxp = max_polls();
    let mut multi_runnable = false;
    let mut timer_dropped_while_other_pending = false;
    for (m, spec) in prog.modules.iter().enumerate() {
        if spec.tasks.is_empty() || !finite(&spec.tasks) {
            continue;
        }
        // modules that panic are out of scope here; shut-down / restarted modules are judged per incarnation
        if res.trace.iter().any(|r| r.m as usize == m && matches!(r.ev, Ev::PanicNow)) {
            continue;
        }
        // incarnations: (inc, start, end) from the recorded resets / restarts
        let mut incs: Vec<(u16, u64, u64)> = vec![(0, 0, u64::MAX)];
        for r in res.trace.iter().filter(|r| r.m as usize == m) {
            match &r.ev {
                Ev::Reset { inc } => {
                    if let Some(last) = incs.iter_mut().find(|i| i.0 == *inc) {
                        last.2 = r.t;
                    }
                }
                Ev::Start { stage: 0, inc } if *inc > 0 => incs.push((*inc, r.t, u64::MAX)),
                _ => {}
            }
        }
        let has_notify_pe = prog.gstack.iter().chain(spec.pes.iter()).any(|p| p.mode == 3);
        let mut expect: Vec<(u16, u64, Expect)> = Vec::new();
        for (inc, s0, end) in &incs {
            let mut ext: Vec<(u64, usize)> = Vec::new();
            // notifications issued by the very event that requests the shutdown ending this incarnation
            let mut ext_last: Vec<(u64, usize)> = Vec::new();
            let mut add = |t0: u64, site: usize, acts: &[crate::net::Act]| {
                let shuts = acts.iter().any(|a| matches!(a, crate::net::Act::Shutdown { .. }));
                for (ai, a) in acts.iter().enumerate() {
                    let e = match a {
                        crate::net::Act::NotifyTask { to } => Some((t0, *to as usize)),
                        crate::net::Act::SelfMsg { delay_ns } if has_notify_pe => Some((t0 + delay_ns, crate::net::uid_of(m, site, ai, *inc) as usize)),
                        _ => None,
                    };
                    if let Some(e) = e {
                        if shuts && t0 == *end && e.0 == t0 && matches!(a, crate::net::Act::NotifyTask { .. }) {
                            ext_last.push(e);
                        } else {
                            ext.push(e);
                        }
                    }
                }
            };
            add(*s0, crate::net::START_SITE, &spec.start_acts);
            for (bi, b) in spec.beats.iter().enumerate() {
                add(s0 + b.at_ns, bi, &b.acts);
            }
            // what runs strictly before the shutdown instant must be there; at the instant itself only what the requesting
            // event enabled (a shutdown takes effect at the end of that event; timers due at the same instant are separate
            // events whose order against it is not ranked)
            let without: Vec<Expect> = evaluate(&spec.tasks, *s0, &ext);
            let mut all_ext = ext.clone();
            all_ext.extend(ext_last.iter().copied());
            let with: Vec<Expect> = if ext_last.is_empty() { Vec::new() } else { evaluate(&spec.tasks, *s0, &all_ext) };
            for e in &without {
                if e.time < *end {
                    expect.push((*inc, *end, e.clone()));
                }
            }
            for e in &with {
                if e.time == *end && !without.iter().any(|w| w.task == e.task && w.step == e.step && w.time == e.time) {
                    info.probe("task_enabled_by_the_event_that_requests_shutdown");
                    expect.push((*inc, *end, e.clone()));
                }
            }
        }
        let got: Vec<(usize, usize, u64, u32, u64, u16)> = res
            .trace
            .iter()
            .filter(|r| r.m as usize == m)
            .filter_map(|r| if let Ev::Task { task, step, code, val, inc } = &r.ev { Some((*task as usize, *step as usize, r.t, *code, *val, *inc)) } else { None })
            .collect();
        if incs.len() > 1 {
            info.probe("timers_checked_across_restart");
        }
        // instants with >= 2 resumptions
        let mut per_t: BTreeMap<u64, usize> = BTreeMap::new();
        for (_, _, e) in &expect {
            *per_t.entry(e.time).or_insert(0) += 1;
        }
        if per_t.values().any(|c| *c >= 2) {
            multi_runnable = true;
        }
        if spec.tasks.len() >= 2 && spec.tasks.iter().any(|t| t.steps.iter().any(|s| matches!(s, AStep::Select { .. } | AStep::Timeout { .. } | AStep::Reset { .. }))) {
            timer_dropped_while_other_pending = true;
        }
        let limit_stopped = res.ok.map_or(false, |o| o.2 > 0) || prog.max_events > 0 || prog.max_time_ns > 0;
        let polls = maxp.get(&m).copied().unwrap_or(0) as i64;
        // most channel receives one task performs within one instant (tokio's cooperative budget is 128 per poll)
        let mut recv_per: BTreeMap<(usize, u64), i64> = BTreeMap::new();
        for (_, _, e) in &expect {
            if matches!(spec.tasks[e.task].steps.get(e.step), Some(AStep::Wait)) {
                *recv_per.entry((e.task, e.time)).or_insert(0) += 1;
            }
        }
        let max_recv = recv_per.values().copied().max().unwrap_or(0);
        let mut index: BTreeMap<(u16, usize, usize), Vec<usize>> = BTreeMap::new();
        for (gi, g) in got.iter().enumerate() {
            index.entry((g.5, g.0, g.1)).or_default().push(gi);
        }
        for (inc, _end, e) in &expect {
            let g = index
                .get(&(*inc, e.task, e.step))
                .and_then(|v| v.iter().map(|gi| &got[*gi]).find(|g| e.val.is_none() || e.codes.contains(&g.3)));
            match g {
                None => {
                    if limit_stopped {
                        continue;
                    }
                    let rule = if prop == "C06" { "never-resumed" } else { "timer-lost" };
                    info.violate(Violation::new(prop, rule, format!(
                        "module {} task {} step {} ({:?}) must complete at {} ns but never did (run ended at {:?})",
                        module_path(prog, m), e.task, e.step, spec.tasks[e.task].steps.get(e.step), e.time, res.ok.map(|o| o.0)))
                        .fact("max_polls_in_module_event", polls).fact("max_recv_by_one_task_in_one_instant", max_recv));
                    return;
                }
                Some(g) => {
                    if g.2 != e.time {
                        let rule = if prop == "C06" { "resumed-late" } else if g.2 > e.time { "timer-late" } else { "timer-early" };
                        info.violate(Violation::new(prop, rule, format!(
                            "module {} task {} step {} ({:?}) completed at {} ns, the awaited condition became true at {} ns",
                            module_path(prog, m), e.task, e.step, spec.tasks[e.task].steps.get(e.step), g.2, e.time))
                            .fact("max_polls_in_module_event", polls)
                            .fact("max_recv_by_one_task_in_one_instant", max_recv)
                            .fact("late", i64::from(g.2 > e.time)));
                        return;
                    }
                    if prop == "C05" {
                        if !e.codes.contains(&g.3) {
                            info.violate(Violation::new(prop, "timer-outcome", format!(
                                "module {} task {} step {} ({:?}) finished with outcome code {} at {} ns, expected one of {:?}",
                                module_path(prog, m), e.task, e.step, spec.tasks[e.task].steps.get(e.step), g.3, g.2, e.codes)));
                            return;
                        }
                        if let Some(v) = e.val {
                            if g.4 != v {
                                info.violate(Violation::new(prop, "interval-tick", format!(
                                    "module {} task {} step {}: tick returned instant {} ns, period and missed-tick behaviour give {} ns",
                                    module_path(prog, m), e.task, e.step, g.4, v)));
                                return;
                            }
                        }
                    }
                }
            }
        }
        // nothing beyond the script (only decidable for modules that were never shut down)
        if incs.len() == 1 && incs[0].2 == u64::MAX && got.len() > expect.len() && !limit_stopped {
            info.violate(Violation::new(prop, "extra-task-record", format!("module {} produced {} task records, the scripts have {}", module_path(prog, m), got.len(), expect.len())));
            return;
        }
        // joined finite tasks must not be reported as unfinished
        let all_joined_finish = spec.tasks.iter().enumerate().filter(|(_, t)| t.join == 1).all(|(ti, t)| expect.iter().any(|(_, _, e)| e.task == ti && e.step == t.steps.len() && e.codes.contains(&T_FINISHED)));
        if !limit_stopped && all_joined_finish && incs.len() == 1 && incs[0].2 == u64::MAX && res.errors.iter().any(|(k, p)| k == "join-not-finished" && *p == module_path(prog, m)) {
            let rule = if prop == "C06" { "never-resumed" } else { "timer-lost" };
            info.violate(Violation::new(prop, rule, format!("run() reports an unfinished joined task of module {} although every script is finite", module_path(prog, m)))
                .fact("max_polls_in_module_event", polls).fact("max_recv_by_one_task_in_one_instant", max_recv));
            return;
        }
        // the run must not outlast the last expected completion of this module if nothing else is going on
    }
    info.probe_n("task_polls", total_polls());
    info.probe_n("max_polls_in_one_module_event", maxp.values().copied().max().unwrap_or(0));
    if maxp.values().any(|p| *p >= 61) {
        info.probe("module_event_with_61_or_more_polls");
    }
    info.events += res.ok.map_or(0, |o| o.1 as u64);
    info.sim_time_ns += u128::from(res.ok.map_or(0, |o| o.0));
    info.nontrivial = if prop == "C06" { multi_runnable } else { timer_dropped_while_other_pending };
}

// ---------------------------------------------------------------- generators

const MS: u64 = 1_000_000;

fn gen_timer_step(rng: &mut Rng) -> AStep {
    let d = |rng: &mut Rng| *rng.pick(&[0u64, 1, 1_000, MS, 5 * MS, 10 * MS, 250 * MS, 1_000 * MS, 5_000 * MS]) * (1 + rng.below(3));
    match rng.below(11) {
        10 => {
            let dd = d(rng).max(2);
            AStep::JoinTimeouts { d: dd, d2: if rng.chance(3, 4) { rng.below(dd) } else { d(rng) } }
        }
        0 | 1 => AStep::Sleep { d: d(rng) },
        2 => AStep::SleepUntil { at: d(rng) * rng.below(4) },
        3 | 4 if rng.chance(1, 12) => AStep::Timeout { d: u64::MAX - rng.below(3), inner: rng.below(2) as u8, d2: d(rng), at: false, back: false },
        3 | 4 if rng.chance(1, 10) => AStep::Timeout { d: 1 + d(rng), inner: rng.below(3) as u8, d2: d(rng), at: true, back: true },
        3 | 4 if rng.chance(1, 6) => AStep::Timeout { d: d(rng), inner: 3, d2: d(rng), at: false, back: false },
        3 | 4 => AStep::Timeout { d: d(rng), inner: rng.below(3) as u8, d2: d(rng), at: rng.chance(1, 3), back: false },
        5 | 6 => {
            let n = 2 + rng.below(2) as usize;
            let base = d(rng);
            AStep::Select { ds: (0..n).map(|_| if rng.chance(1, 3) { base } else { d(rng) }).collect() }
        }
        7 | 8 => AStep::Reset { d0: if rng.chance(1, 4) { u64::MAX } else { d(rng) }, d1: d(rng), poll_first: rng.chance(2, 3) },
        _ => {
            let period = 20 * MS * (1 + rng.below(5));
            let work = match rng.below(6) {
                0 => 0,
                1 => period / 2,
                2 => period,
                3 => 2 * period,
                4 => period + period / 2, // late by half a period
                _ => 3 * period + 10 * MS,
            };
            AStep::Interval { period, behaviour: rng.below(3) as u8, ticks: 1 + rng.below(5) as u8, work, off: if rng.chance(1, 3) { 10 * MS * (1 + rng.below(7)) } else { 0 }, once: false, back: if rng.chance(1, 6) { 10 * MS * (1 + rng.below(30)) } else { 0 } }
        }
    }
}

pub fn gen_c05(rng: &mut Rng, tier: Tier) -> NetProgram {
    let nmod = 1 + rng.small(3) as usize;
    let mut prog = NetProgram { seed: rng.u64(), ..Default::default() };
    let max_steps = if tier == Tier::Thorough { 12 } else { 7 };
    for i in 0..nmod {
        let mut spec = crate::net::ModSpec { name: format!("m{i}"), parent: -1, stages: 1, panic_at: 255, ..Default::default() };
        let ntasks = 1 + rng.small(5) as usize;
        for _ in 0..ntasks {
            let ns = 1 + rng.small(max_steps) as usize;
            spec.tasks.push(TaskSpec { local: rng.chance(1, 3), join: rng.below(3) as u8, steps: (0..ns).map(|_| gen_timer_step(rng)).collect() });
        }
        // some ordinary message traffic of the module itself keeps events coming at other instants
        if rng.chance(1, 2) {
            for k in 0..rng.small(4) {
                spec.beats.push(crate::net::Beat { at_ns: k * 700 * MS + rng.below(3) * MS, acts: vec![crate::net::Act::SelfMsg { delay_ns: rng.below(10) * MS }] });
            }
        }
        // restarts of the module: its tasks (and their timers) start over at the restart instant
        if rng.chance(1, 4) {
            let restart = *rng.pick(&[0i64, 1, 250_000_000, 3_000_000_000, 20_000_000_000]);
            let at = *rng.pick(&[0u64, 3, MS, 10 * MS, 250 * MS, 1_000 * MS, 5_000 * MS, 12_000 * MS]) + rng.below(3);
            spec.beats.push(crate::net::Beat { at_ns: at, acts: vec![crate::net::Act::Shutdown { restart, at: rng.chance(1, 2) }] });
            spec.beats.sort_by_key(|b| b.at_ns);
        }
        prog.modules.push(spec);
    }
    prog.order = (0..nmod as u32).collect();
    // sleeps of months and years (the calendar queue gets buckets of an hour so that the run can get there)
    if rng.chance(1, 30) {
        prog.n = 1024;
        prog.t_ns = 3_600_000 * MS;
        let year = 31_536_000_000 * MS;
        let d = *rng.pick(&[year / 12, year, 2 * year, 2 * year + year / 5, 3 * year, 10 * year]) + rng.below(1000);
        let v = rng.usize(nmod);
        prog.modules[v].tasks.push(TaskSpec { local: rng.chance(1, 3), join: 1, steps: vec![AStep::Sleep { d }, AStep::Sleep { d: MS }] });
    }
    prog
}

pub fn gen_c06(rng: &mut Rng, tier: Tier) -> NetProgram {
    let mut prog = NetProgram { seed: rng.u64(), ..Default::default() };
    let mut spec = crate::net::ModSpec { name: "m0".into(), parent: -1, stages: 1, panic_at: 255, ..Default::default() };
    let local = rng.chance(1, 3);
    // most runs stay below the executor's per-turn budget; a few go far beyond it
    let big = rng.chance(1, 12);
    let cap = if tier == Tier::Thorough { 3000 } else { 300 };
    if rng.chance(1, 8) {
        // a des AsyncFn block whose handler hands every message to a freshly spawned worker task and awaits it: the
        // handler's reaction to a message completes in the instant the message arrives
        spec.gates = vec![("o".into(), 1)];
        let nb = 1 + rng.small(6);
        let mut t = rng.below(3) * 500 * MS;
        for _ in 0..nb {
            let n = 1 + rng.small(2) as usize;
            spec.beats.push(crate::net::Beat { at_ns: t, acts: (0..n).map(|_| crate::net::Act::Send { gate: 0, delay_ns: 0, body: 0 }).collect() });
            t += MS * (1 + rng.below(2000));
        }
        spec.chained = rng.chance(1, 2);
        prog.blocks = vec![5];
        prog.modules.push(spec);
        prog.order = vec![0];
        return prog;
    }
    match rng.below(5) {
        4 => {
            // an interval that fell far behind catches up: all missed ticks complete in the instant the task comes back
            let n = if rng.chance(1, 2) { 130 + rng.below(120) as u8 } else { 2 + rng.below(100) as u8 };
            let period = MS * (1 + rng.below(20));
            spec.tasks.push(TaskSpec { local, join: 1, steps: vec![AStep::Interval { period, behaviour: 0, ticks: n, work: period * (u64::from(n) + 5 + rng.below(50)), off: 0, once: true, back: 0 }, AStep::Sleep { d: MS }] });
            for _ in 0..rng.small(5) {
                spec.tasks.push(TaskSpec { local, join: 0, steps: vec![AStep::Sleep { d: 10 * MS }] });
            }
        }
        3 => {
            // the instant is enabled by a message: a handler (or a consuming processing element) wakes waiting tasks
            let k = if big { 62 + rng.usize(cap) } else { 1 + rng.small(30) as usize };
            for _ in 0..k {
                let mut steps = vec![AStep::Wait];
                if rng.chance(1, 3) {
                    steps.push(AStep::Sleep { d: 2 * MS });
                    steps.push(AStep::Wait);
                }
                spec.tasks.push(TaskSpec { local, join: rng.below(2) as u8, steps });
            }
            let via_pe = rng.chance(1, 2);
            if via_pe {
                if rng.chance(1, 2) {
                    prog.gstack.push(crate::net::PeSpec { mode: 3, ..Default::default() });
                } else {
                    spec.pes.push(crate::net::PeSpec { mode: 3, ..Default::default() });
                }
            }
            let nbeats = 1 + rng.small(3);
            for b in 0..nbeats {
                let mut acts = Vec::new();
                for _ in 0..1 + rng.small(2 * k as u64) {
                    acts.push(if via_pe { crate::net::Act::SelfMsg { delay_ns: *rng.pick(&[0u64, 0, MS, 7 * MS]) } } else { crate::net::Act::NotifyTask { to: rng.below(k as u64) as u16 } });
                }
                spec.beats.push(crate::net::Beat { at_ns: 100 * MS + b * 50 * MS, acts });
            }
            if rng.chance(1, 3) {
                spec.start_acts = vec![crate::net::Act::NotifyTask { to: 0 }];
            }
            // the handler that wakes the tasks also requests a shutdown: the woken tasks still run in that event
            if !via_pe && !big && rng.chance(1, 4) {
                if let Some(b) = spec.beats.last_mut() {
                    b.acts.push(crate::net::Act::Shutdown { restart: if rng.chance(1, 2) { -1 } else { (rng.below(3) * 100 * MS) as i64 }, at: false });
                }
            }
        }
        0 => {
            // k tasks due at the same instant
            let k = if big { 62 + rng.usize(cap) } else { 1 + rng.small(40) as usize };
            let d = *rng.pick(&[0u64, MS, 5_000 * MS]);
            for _ in 0..k {
                let mut steps = vec![AStep::Sleep { d }];
                if rng.chance(1, 3) {
                    steps.push(AStep::Sleep { d: MS });
                }
                spec.tasks.push(TaskSpec { local, join: rng.below(2) as u8, steps });
            }
        }
        1 => {
            // wake chain: task 0 sleeps, then wakes 1, which wakes 2, ...
            let depth = if big { 62 + rng.usize(cap) } else { 2 + rng.small(30) as usize };
            for i in 0..depth {
                let mut steps = Vec::new();
                if i == 0 {
                    steps.push(AStep::Sleep { d: 1_000 * MS });
                } else {
                    steps.push(AStep::Wait);
                }
                if i + 1 < depth {
                    steps.push(AStep::Notify { to: (i + 1) as u16 });
                }
                if rng.chance(1, 4) {
                    steps.push(AStep::Sleep { d: 3 * MS });
                }
                spec.tasks.push(TaskSpec { local, join: 1, steps });
            }
        }
        _ => {
            // one task doing many receives in a single poll, fed by a producer
            let w = if big { 200 + rng.usize(cap * 5) } else { 1 + rng.small(100) as usize };
            let mut prod = vec![AStep::Sleep { d: 10 * MS }];
            for _ in 0..w {
                prod.push(AStep::Notify { to: 1 });
            }
            let mut cons = Vec::new();
            for _ in 0..w {
                cons.push(AStep::Wait);
            }
            spec.tasks.push(TaskSpec { local, join: 1, steps: prod });
            spec.tasks.push(TaskSpec { local, join: 1, steps: cons });
            for _ in 0..rng.small(10) {
                spec.tasks.push(TaskSpec { local, join: 0, steps: vec![AStep::Sleep { d: 10 * MS }] });
            }
        }
    }
    // the trigger of the instant can also be a message
    if rng.chance(1, 3) {
        spec.beats.push(crate::net::Beat { at_ns: 1_000 * MS, acts: vec![crate::net::Act::SelfMsg { delay_ns: 0 }] });
    }
    prog.modules.push(spec);
    prog.order = vec![0];
    prog
}

pub fn gen_tasks_c04(rng: &mut Rng) -> Vec<TaskSpec> {
    let mut v = Vec::new();
    for _ in 0..1 + rng.small(3) {
        let ns = 1 + rng.small(6) as usize;
        let steps = (0..ns)
            .map(|_| match rng.below(5) {
                0 => AStep::Random,
                1 | 2 => AStep::SelectReady,
                3 => AStep::Select { ds: vec![5 * MS, 5 * MS, 5 * MS] },
                _ => AStep::Sleep { d: rng.below(20) * MS },
            })
            .collect();
        v.push(TaskSpec { local: rng.chance(1, 3), join: rng.below(3) as u8, steps });
    }
    v
}

pub fn gen_tasks_c09(rng: &mut Rng) -> Vec<TaskSpec> {
    let mut v = Vec::new();
    for _ in 0..rng.small(2) {
        let ns = 2 + rng.small(8) as usize;
        let mut steps: Vec<AStep> = (0..ns)
            .map(|_| match rng.below(4) {
                0 => AStep::Interval { period: 100 * MS * (1 + rng.below(3)), behaviour: 0, ticks: 2 + rng.below(4) as u8, work: 0, off: 0, once: false, back: 0 },
                _ => AStep::Sleep { d: 250 * MS * (1 + rng.below(4)) },
            })
            .collect();
        if rng.chance(1, 5) {
            let pos = rng.usize(steps.len());
            steps.insert(pos, AStep::Shutdown { restart: if rng.chance(1, 3) { -1 } else { (rng.below(4) * 250 * MS) as i64 } });
        }
        v.push(TaskSpec { local: rng.chance(1, 3), join: rng.below(2) as u8, steps });
    }
    v
}

pub fn gen_tasks_c13(rng: &mut Rng) -> Vec<TaskSpec> {
    let mut v = Vec::new();
    // a task that is woken by a handler of its module (Act::NotifyTask) and then sends a message
    if rng.chance(1, 3) {
        v.push(TaskSpec { local: rng.chance(1, 3), join: 0, steps: vec![AStep::Wait, AStep::Emit { gate: rng.below(4) as u32 }, AStep::Wait, AStep::Emit { gate: rng.below(4) as u32 }] });
    }
    for _ in 0..rng.small(2) {
        let ns = 1 + rng.small(5) as usize;
        let steps: Vec<AStep> = (0..ns).map(|_| AStep::Sleep { d: 250 * MS * (1 + rng.below(4)) }).collect();
        v.push(TaskSpec { local: rng.chance(1, 3), join: rng.below(3) as u8, steps });
    }
    v
}

/// a joined task that panics at its k-th step (C13)
pub fn panicking_task(rng: &mut Rng) -> TaskSpec {
    let ns = 1 + rng.small(4) as usize;
    let mut steps: Vec<AStep> = (0..ns).map(|_| AStep::Sleep { d: 250 * MS * (1 + rng.below(4)) }).collect();
    let pos = rng.usize(steps.len() + 1);
    steps.insert(pos, AStep::Panic);
    TaskSpec { local: rng.chance(1, 3), join: 1 + rng.below(2) as u8, steps }
}

pub fn gen_tasks_c20(rng: &mut Rng) -> Vec<TaskSpec> {
    let mut v = Vec::new();
    for _ in 0..rng.small(3) {
        let steps = match rng.below(4) {
            0 => vec![AStep::Sleep { d: 100_000 * MS }],           // blocked on a timer when the run stops
            1 => vec![AStep::Wait],                                // blocked on a receive forever
            2 => vec![AStep::Sleep { d: 300 * MS }, AStep::Timeout { d: 50_000 * MS, inner: 2, d2: 0, at: false, back: false }],
            _ => (0..1 + rng.small(4)).map(|_| AStep::Sleep { d: 200 * MS }).collect(),
        };
        v.push(TaskSpec { local: rng.chance(1, 3), join: 0, steps });
    }
    v
}
