//! Engine `net`: generated multi-module network models executed on the real des net layer
//! (modules, gates, channels, messages, processing elements, shutdown/restart, panics).
//! This file holds the program type, the scripted interpreter (the only stub: user code) and the runner;
//! the oracles live in `net_oracles.rs`, the generators in `net_gen.rs`.

use crate::common::*;
use des::net::channel::{Channel, ChannelDropBehaviour, ChannelMetrics};
use des::net::gate::GateKind;
use des::net::module::Stereotyp;
use des::net::processing::{ProcessingElement, ProcessingStack};
use des::prelude::*;
use des::runtime::RuntimeLimit;
use serde::{Deserialize, Serialize};
use std::cell::RefCell;
use std::collections::BTreeMap;
use std::rc::Rc;
use std::time::Duration;

// ---------------------------------------------------------------- program

#[derive(Serialize, Deserialize, Clone, Debug, PartialEq, Eq, Hash, Default)]
pub struct Chan {
    pub bitrate: u64,
    pub latency_ns: u64,
    pub jitter_ns: u64,
    /// -2 = Drop, -1 = Queue(None), >= 0 = Queue(Some(limit))
    pub queue: i64,
}

#[derive(Serialize, Deserialize, Clone, Debug, PartialEq, Eq, Hash)]
pub struct Link {
    pub am: u32,
    pub ag: u32,
    pub bm: u32,
    pub bg: u32,
    /// call `b.connect(a)` instead of `a.connect(b)`
    pub flip: bool,
    pub chan: Option<Chan>,
}

#[derive(Serialize, Deserialize, Clone, Debug, PartialEq, Eq, Hash)]
#[serde(tag = "act")]
pub enum Act {
    /// send a fresh message on gate `gate` (flat index, taken modulo), `delay_ns` = 0 means `send`, else `send_in`
    Send { gate: u32, delay_ns: u64, body: u8 },
    /// log `random::<u64>()`
    Random,
    /// restart: -1 = plain shutdown, otherwise restart after that many ns; `at` = use shutdow_and_restart_at
    Shutdown { restart: i64, at: bool },
    Panic,
    /// log parent()/child()/path()/name() answers
    QueryTree,
    /// schedule an extra self message (same instant burst)
    SelfMsg { delay_ns: u64 },
    /// (rx rules only) re-send the very message object that was received on gate `gate`
    Forward { gate: u32 },
    /// wake task `to` of this module (through its inbox channel)
    NotifyTask { to: u16 },
    /// change the panic stereotype of the module from inside a callback
    SetCatching { v: bool },
    /// (C02) try to emit a message for an instant `back_ns` before the current one: mode 0 `send_at` on gate `gate`,
    /// mode 1 `schedule_at`. The call must be rejected with a panic, which the handler catches itself.
    SendPast { gate: u32, back_ns: u64, mode: u8 },
    /// log what the global topology view answers: the shortest-path first hops from this module to every other module
    QueryTopology,
}

#[derive(Serialize, Deserialize, Clone, Debug, PartialEq, Eq, Hash)]
pub struct Beat {
    /// relative to the start of the module's incarnation
    pub at_ns: u64,
    pub acts: Vec<Act>,
}

#[derive(Serialize, Deserialize, Clone, Debug, PartialEq, Eq, Hash)]
pub struct RxRule {
    /// applies to the n-th (1-based) received data message of the incarnation
    pub nth: u32,
    pub act: Act,
}

#[derive(Serialize, Deserialize, Clone, Debug, PartialEq, Eq, Hash, Default)]
pub struct PeSpec {
    /// 0 pass, 1 modify (kind += 1), 2 consume when uid % m == r, 3 consume self messages and notify a task,
    /// 4 panic, 5 request shutdown-and-restart (after gate % 3 half seconds) when uid % m == r and pass the message on
    pub mode: u8,
    pub m: u32,
    pub r: u32,
    /// 0 none, 1 event_start, 2 incoming, 3 event_end: send a message on `gate` from that hook
    pub send_hook: u8,
    pub gate: u32,
}

/// The run is paused with `dispatch_events_until(pause_ns)`; a message is put onto flat gate `gate` of module `m` for
/// the time `sim_time() + delay_ns` (0: the very instant the paused runtime reports).
#[derive(Serialize, Deserialize, Clone, Debug, PartialEq, Eq, Hash, Default)]
pub struct Inject {
    pub pause_ns: u64,
    pub delay_ns: u64,
    pub m: u32,
    pub gate: u32,
}

pub const INJ_SITE: usize = 0x1d0;

/// number of start-up stages a scripted module declares
pub fn eff_stages(spec: &ModSpec) -> u8 {
    if spec.zero_stages {
        0
    } else {
        spec.stages.clamp(1, 4)
    }
}

#[derive(Serialize, Deserialize, Clone, Debug, PartialEq, Eq, Hash, Default)]
pub struct ModSpec {
    pub name: String,
    /// index of the parent module (must be smaller than the own index), -1 = top level
    pub parent: i32,
    pub stages: u8,
    /// the module declares no start-up stage at all (`num_sim_start_stages() == 0`): it is never started explicitly, it
    /// only reacts to messages
    #[serde(default)]
    pub zero_stages: bool,
    /// (name, cluster size)
    pub gates: Vec<(String, u8)>,
    pub catching: bool,
    pub pes: Vec<PeSpec>,
    pub pes_prepend: bool,
    /// beats are chained with schedule_in from the previous beat instead of all pre-scheduled at start
    pub chained: bool,
    pub beats: Vec<Beat>,
    pub rx: Vec<RxRule>,
    /// panic in at_sim_start(stage) / at_sim_end: stage index, 200 = at_sim_end, 255 = never
    pub panic_at: u8,
    #[serde(default)]
    pub tasks: Vec<crate::asy::TaskSpec>,
    /// scripted body operations applied to received data messages (see bodies::apply_ops)
    #[serde(default)]
    pub rx_ops: Vec<u8>,
    /// acts performed from at_sim_end (whatever they emit is never processed by this simulation)
    #[serde(default)]
    pub end_acts: Vec<Act>,
    /// acts performed from at_sim_start(0), also on every restart
    #[serde(default)]
    pub start_acts: Vec<Act>,
    /// at_sim_end returns an error
    #[serde(default)]
    pub end_err: bool,
    /// the scripted at_sim_start panic (`panic_at`) only happens in this incarnation (0 = initial start)
    #[serde(default)]
    pub panic_inc: u16,
    /// Module::reset panics (first reset only)
    #[serde(default)]
    pub reset_panics: bool,
    /// create this node through a scoped builder block of its grandparent with the relative path "parent.name"
    #[serde(default)]
    pub scoped_build: bool,
    /// (C09) this module requests a restart and panics in the same event: its panic is an expected error of the run
    #[serde(default)]
    pub crash_reboot: bool,
}

pub struct SendTok(pub crate::bodies::Token);
unsafe impl Send for SendTok {}

/// A module block that adds one node below its scope, addressed by a relative (possibly dotted) path.
pub struct ScopedAdder {
    pub rel: String,
    pub module: ScriptMod,
}
impl des::net::blocks::ModuleBlock for ScopedAdder {
    type Ret = ();
    fn build<A>(self, mut sim: SimBuilderScoped<'_, A>) {
        sim.node(self.rel.as_str(), self.module);
    }
}

#[derive(Debug)]
/// The application inside the network simulation (`Sim<Inner>`): its own tear-down hook may report an error.
pub struct Inner {
    pub fail_end: bool,
}
impl des::runtime::EventLifecycle<Sim<Inner>> for Inner {
    fn at_sim_end(rt: &mut Runtime<Sim<Inner>>) -> Result<(), RuntimeError> {
        if rt.app.inner.fail_end {
            Err(RuntimeError::from(ScriptedEndError))
        } else {
            Ok(())
        }
    }
}

#[derive(Debug)]
pub struct ScriptedEndError;
impl std::fmt::Display for ScriptedEndError {
    fn fmt(&self, f: &mut std::fmt::Formatter<'_>) -> std::fmt::Result {
        write!(f, "scripted at_sim_end failure")
    }
}
impl std::error::Error for ScriptedEndError {}

#[derive(Serialize, Deserialize, Clone, Debug, PartialEq, Eq, Hash)]
pub struct BadNode {
    /// inserted before the `pos`-th regular node
    pub pos: u32,
    /// 0 = duplicate of module `of`, 1 = child of a path that does not exist
    pub kind: u8,
    pub of: u32,
}

#[derive(Serialize, Deserialize, Clone, Debug, PartialEq, Eq, Hash, Default)]
pub struct NetProgram {
    pub seed: u64,
    pub n: usize,
    pub t_ns: u64,
    pub modules: Vec<ModSpec>,
    pub order: Vec<u32>,
    pub links: Vec<Link>,
    pub gstack: Vec<PeSpec>,
    pub gstack_via_set: bool,
    pub bad_nodes: Vec<BadNode>,
    /// 0 = none
    pub max_events: u64,
    /// 0 = none
    pub max_time_ns: u64,
    /// how the simulation ends: 0 run, 1 drop builder before build, 2 drop runtime before start
    pub end_mode: u8,
    /// order in which the run result is dropped: 0 as a whole, 1 app first, 2 profiler first
    pub drop_order: u8,
    /// connect calls issued by the external driver while the simulation is paused at `at_ns` (closing chains into rings)
    #[serde(default)]
    pub late_links: Vec<(u64, Link)>,
    /// links with equal channel metrics are connected with one and the same `ChannelRef` object
    #[serde(default)]
    pub share_channels: bool,
    /// C04 fault: while the k-th scripted timer handler runs, another thread sets up a simulation of its own
    /// (kind even: a generic `Runtime`, odd: a `Sim`): (k, kind)
    #[serde(default)]
    pub intruder: Option<(u32, u8)>,
    /// tasks capture a lease whose destructor consults the global view of the simulation
    #[serde(default)]
    pub leases: bool,
    /// the application inside the simulation reports an error from its own `at_sim_end`
    #[serde(default)]
    pub inner_end_err: bool,
    /// fault: every timer future a task awaits is created on a fresh helper thread and handed over
    #[serde(default)]
    pub timers_elsewhere: bool,
    /// messages the driver injects from outside (`Runtime::add_message_onto`) while the run is paused
    #[serde(default)]
    pub injections: Vec<Inject>,
    /// extra top-level nodes built from des's own module blocks, each holding a token in its task / state:
    /// 1 = AsyncFn::new, 2 = AsyncFn::failable, 3 = AsyncFn::io + require_join, 4 = HandlerFn,
    /// 5 = AsyncFn::new whose handler hands every message to a freshly spawned worker task, awaits it and logs the
    /// completion (gate "in", connected to flat gate 0 of module 0)
    #[serde(default)]
    pub blocks: Vec<u8>,
    /// the application an error-free `run()` hands back is put into a second runtime (same options) and run again:
    /// a complete second life cycle (C12)
    #[serde(default)]
    pub rerun: bool,
    /// environment dimension: a `tracing` subscriber that accepts every level and formats every field is installed while
    /// the simulation is built, run and dropped (the arguments of log statements are evaluated only then)
    #[serde(default)]
    pub logging: bool,
}

/// a subscriber that accepts everything, formats every field of every event and throws the text away
struct LogSink;
struct NullWriter;
impl std::fmt::Write for NullWriter {
    fn write_str(&mut self, _: &str) -> std::fmt::Result {
        Ok(())
    }
}
impl tracing::field::Visit for NullWriter {
    fn record_debug(&mut self, _field: &tracing::field::Field, value: &dyn std::fmt::Debug) {
        let _ = std::fmt::Write::write_fmt(self, format_args!("{value:?}"));
    }
}
impl tracing::Subscriber for LogSink {
    fn enabled(&self, _: &tracing::Metadata<'_>) -> bool {
        true
    }
    fn new_span(&self, attrs: &tracing::span::Attributes<'_>) -> tracing::span::Id {
        attrs.record(&mut NullWriter);
        tracing::span::Id::from_u64(1)
    }
    fn record(&self, _: &tracing::span::Id, values: &tracing::span::Record<'_>) {
        values.record(&mut NullWriter);
    }
    fn record_follows_from(&self, _: &tracing::span::Id, _: &tracing::span::Id) {}
    fn event(&self, event: &tracing::Event<'_>) {
        LOGGED.with(|c| c.set(c.get() + 1));
        event.record(&mut NullWriter);
    }
    fn enter(&self, _: &tracing::span::Id) {}
    fn exit(&self, _: &tracing::span::Id) {}
}
thread_local! {
    static LOGGED: std::cell::Cell<u64> = const { std::cell::Cell::new(0) };
}
/// number of log events the sink has formatted on this thread since the last call
pub fn take_logged() -> u64 {
    LOGGED.with(|c| c.replace(0))
}

pub fn run_net(prog: &NetProgram, opts: &RunOpts) -> NetResult {
    if prog.logging {
        tracing::subscriber::with_default(LogSink, || run_net_quiet(prog, opts))
    } else {
        run_net_quiet(prog, opts)
    }
}

// ---------------------------------------------------------------- trace

#[derive(Clone, Debug, PartialEq, Eq, Hash, Serialize)]
pub enum Ev {
    Start { stage: u8, inc: u16 },
    End { inc: u16 },
    Reset { inc: u16 },
    Beat { i: u16, inc: u16 },
    /// right before a send call
    Offer { uid: u32, gate: u16, len: u32, busy: bool, fin_ns: u64, has_chan: bool, delay_ns: u64 },
    Recv { uid: u32, kind: u16, inc: u16, sender_m: i32, receiver_ok: bool, last_m: i32, last_g: i32, len: u32 },
    PeStart { pe: u16 },
    PeIn { pe: u16, uid: u32, kind: u16 },
    PeEnd { pe: u16 },
    Rand { v: u64 },
    /// `inactive`: bit 0 = the parent was reported as currently inactive, bit 1 + k = the k-th child (in program order) was
    Query { parent_ok: bool, children_ok: bool, path_ok: bool, name_ok: bool, #[serde(default)] inactive: u32, #[serde(default)] roundtrip_ok: bool },
    PanicNow,
    ShutdownReq { restart: i64 },
    /// async task records (engine asy)
    Task { task: u16, step: u16, inc: u16, code: u32, val: u64 },
    Active { active: bool },
    /// an attempt to emit a message for an instant before the current one
    PastSend { uid: u32, mode: u8, back_ns: u64, accepted: bool },
    /// answer of `Topology::current().dijkstra(own path)`: number of destinations, hash over the sorted
    /// (destination, first-hop gate, first-hop peer) triples; `n == u32::MAX`: the call panicked
    Topo { n: u32, h: u64 },
}

#[derive(Clone, Debug, PartialEq, Eq, Hash, Serialize)]
pub struct Rec {
    pub seq: u32,
    pub t: u64,
    pub m: u16,
    pub ev: Ev,
}

pub struct RunCtx {
    pub trace: Vec<Rec>,
    /// ModuleId.0 -> module index
    pub ids: BTreeMap<u16, usize>,
    pub building: usize,
    pub prog: Rc<NetProgram>,
    /// flat gate lists per module: (name, size, pos)
    pub flat_gates: Vec<Vec<(String, usize, usize)>>,
    pub ledger: crate::bodies::Ledger,
    /// user code of another simulation of this process ran inside this one (state leaked between simulations)
    pub foreign: bool,
    /// shutdown requests made by processing elements (bounded per run)
    pub pe_shutdowns: u32,
    /// completions logged by des module blocks: (simulated time, block index, message uid)
    pub block_log: Vec<(u64, u8, u32)>,
}

thread_local! {
    static RUN_ID: RefCell<u64> = const { RefCell::new(0) };
}
pub fn current_run() -> u64 {
    RUN_ID.with(|r| *r.borrow())
}
/// true (and noted) if the object belongs to an earlier simulation of this process
fn is_foreign(run_id: u64) -> bool {
    if run_id == current_run() {
        return false;
    }
    with_ctx(|c| c.foreign = true);
    true
}

thread_local! {
    pub static CTX: RefCell<Option<RunCtx>> = const { RefCell::new(None) };
}

pub fn rec(m: usize, ev: Ev) {
    let t = SimTime::now().as_nanos() as u64;
    CTX.with(|c| {
        if let Some(c) = c.borrow_mut().as_mut() {
            let seq = c.trace.len() as u32;
            c.trace.push(Rec { seq, t, m: m as u16, ev });
        }
    });
}

pub fn with_ctx<R>(f: impl FnOnce(&mut RunCtx) -> R) -> Option<R> {
    CTX.with(|c| c.borrow_mut().as_mut().map(f))
}

pub const MAX_CYCLES: u16 = 3;
pub const BEAT_KIND: u16 = 0xB000;
pub const SELF_KIND: u16 = 0xA000;
pub const PE_KIND: u16 = 0x9000;

pub fn flat_gates(spec: &ModSpec) -> Vec<(String, usize, usize)> {
    let mut v = Vec::new();
    let mut seen = std::collections::BTreeSet::new();
    for (name, size) in &spec.gates {
        let size = (*size).clamp(1, 8) as usize;
        if !seen.insert(name.clone()) {
            continue;
        }
        for pos in 0..size {
            v.push((name.clone(), size, pos));
        }
    }
    v
}

/// static id of every send site: (module, beat or rx-rule index, act index)
pub fn uid_of(m: usize, site: usize, act: usize, inc: u16) -> u32 {
    ((m as u32 & 0xff) << 24) | ((u32::from(inc) & 0xf) << 20) | ((site as u32 & 0x3ff) << 10) | (act as u32 & 0x3ff)
}
pub const RX_SITE_BASE: usize = 0x200;
pub const END_SITE: usize = 0x1f0;
pub const START_SITE: usize = 0x1e0;
pub const PE_SITE_BASE: usize = 0x300;
/// messages emitted by a task: site = TASK_SITE_BASE + task index (mod 16)
pub const TASK_SITE_BASE: usize = 0x1c0;

/// A task of module `m` emits a message on one of the module's gates (called from inside the task).
pub fn task_emit(m: usize, ti: usize, si: usize, inc: u16, gate: u32) {
    let flat = with_ctx(|c| c.flat_gates.get(m).cloned().unwrap_or_default()).unwrap_or_default();
    if flat.is_empty() {
        return;
    }
    let gi = gate as usize % flat.len();
    let Some(g) = current().gate(&flat[gi].0, flat[gi].2) else { return };
    if g.kind() == GateKind::Transit {
        return;
    }
    let uid = uid_of(m, TASK_SITE_BASE + (ti & 0xf), si & 0x3ff, inc);
    let msg = Message::default().kind(1).src(uid_to_src(uid));
    rec(m, Ev::Offer { uid, gate: gi as u16, len: msg.length() as u32, busy: false, fin_ns: 0, has_chan: false, delay_ns: 0 });
    send(msg, g);
}

/// twin mode of C13: has this module "fallen silent"?
pub fn module_is_silent(m: usize) -> bool {
    is_silent(m)
}

pub fn uid_parts(uid: u32) -> (usize, u16, usize, usize) {
    ((uid >> 24) as usize, ((uid >> 20) & 0xf) as u16, ((uid >> 10) & 0x3ff) as usize, (uid & 0x3ff) as usize)
}

fn uid_to_src(uid: u32) -> [u8; 6] {
    let b = uid.to_le_bytes();
    [b[0], b[1], b[2], b[3], 0x5a, 0xa5]
}
fn src_to_uid(src: [u8; 6]) -> u32 {
    u32::from_le_bytes([src[0], src[1], src[2], src[3]])
}

pub fn body_decl_len(body: u8) -> usize {
    crate::bodies::declared_len(body)
}

// ---------------------------------------------------------------- scripted module

pub struct ScriptMod {
    pub run_id: u64,
    pub idx: usize,
    pub prog: Rc<NetProgram>,
    pub inc: u16,
    pub rx_count: u32,
    /// C20: a token that must be dropped exactly once with the module
    pub token: Option<crate::bodies::Token>,
}

impl ScriptMod {
    fn spec(&self) -> &ModSpec {
        &self.prog.modules[self.idx]
    }

    fn gate_ref(&self, gate: u32) -> Option<(GateRef, usize)> {
        let flat = flat_gates(self.spec());
        if flat.is_empty() {
            return None;
        }
        let gi = gate as usize % flat.len();
        let (name, _, pos) = &flat[gi];
        current().gate(name, *pos).map(|g| (g, gi))
    }

    /// returns false when the script of this event stops here (twin of a panic)
    fn do_act(&mut self, site: usize, ai: usize, act: &Act) -> bool {
        match act {
            Act::Send { gate, delay_ns, body } => {
                let Some((g, gi)) = self.gate_ref(*gate) else { return true };
                // sending on a transit gate is a usage error (panics in des); scripts never do it
                if g.kind() == GateKind::Transit {
                    return true;
                }
                let uid = uid_of(self.idx, site, ai, self.inc);
                let msg = crate::bodies::make_message(uid, *body).src(uid_to_src(uid));
                let (busy, fin, has) = match g.channel() {
                    Some(ch) => (ch.is_busy(), ch.transmission_finish_time().as_nanos() as u64, true),
                    None => (false, 0, false),
                };
                rec(self.idx, Ev::Offer { uid, gate: gi as u16, len: msg.length() as u32, busy, fin_ns: fin, has_chan: has, delay_ns: *delay_ns });
                if *delay_ns == 0 {
                    send(msg, g);
                } else {
                    send_in(msg, g, Duration::from_nanos(*delay_ns));
                }
            }
            Act::Random => {
                let v: u64 = random();
                rec(self.idx, Ev::Rand { v });
            }
            Act::QueryTopology => {
                let me = current().path();
                let r = std::panic::catch_unwind(std::panic::AssertUnwindSafe(|| {
                    let topo = des::net::topology::Topology::current();
                    let map = topo.dijkstra(me);
                    let mut v: Vec<(String, String, String)> = map
                        .iter()
                        .map(|(dest, e)| (dest.as_str().to_string(), e.from.gate().path().as_str().to_string(), e.to.module().path().as_str().to_string()))
                        .collect();
                    v.sort();
                    let mut h = crate::common::TraceHash::default();
                    for (a, b, c) in &v {
                        for x in a.bytes().chain(b.bytes()).chain(c.bytes()) {
                            h.push(u64::from(x));
                        }
                        h.push(0x1_0000);
                    }
                    (v.len() as u32, h.0)
                }));
                match r {
                    Ok((n, h)) => rec(self.idx, Ev::Topo { n, h }),
                    Err(_) => {
                        crate::clear_panic();
                        rec(self.idx, Ev::Topo { n: u32::MAX, h: 0 });
                    }
                }
            }
            Act::SendPast { gate, back_ns, mode } => {
                let now = SimTime::now().as_nanos();
                let back = u128::from((*back_ns).max(1));
                if now < back {
                    return true;
                }
                let past = SimTime::from_duration(Duration::from_nanos((now - back) as u64));
                let uid = uid_of(self.idx, site, ai, self.inc);
                let msg = crate::bodies::make_message(uid, 0).src(uid_to_src(uid));
                let r = if *mode % 2 == 0 {
                    let Some((g, _)) = self.gate_ref(*gate) else { return true };
                    if g.kind() == GateKind::Transit {
                        return true;
                    }
                    std::panic::catch_unwind(std::panic::AssertUnwindSafe(move || send_at(msg, g, past)))
                } else {
                    std::panic::catch_unwind(std::panic::AssertUnwindSafe(move || schedule_at(msg, past)))
                };
                if r.is_err() {
                    crate::clear_panic();
                }
                rec(self.idx, Ev::PastSend { uid, mode: *mode % 2, back_ns: *back_ns, accepted: r.is_ok() });
            }
            Act::Shutdown { restart, at } => {
                // scripts restart at most MAX_CYCLES times, otherwise a restarting script would never end
                if self.inc >= MAX_CYCLES {
                    return true;
                }
                rec(self.idx, Ev::ShutdownReq { restart: *restart });
                if *restart < 0 {
                    current().shutdown();
                } else if *at {
                    current().shutdow_and_restart_at(SimTime::now() + Duration::from_nanos(*restart as u64));
                } else {
                    current().shutdow_and_restart_in(Duration::from_nanos(*restart as u64));
                }
            }
            Act::Panic => {
                if is_twin() {
                    go_silent(self.idx);
                    return false;
                }
                rec(self.idx, Ev::PanicNow);
                panic!("scripted panic in module {}", self.idx);
            }
            Act::QueryTree => {
                let spec = self.spec();
                let cur = current();
                let expected_path = module_path(&self.prog, self.idx);
                use des::net::module::ModuleReferencingError as MRE;
                // (a parent / child that is shut down or has panicked is reported as currently inactive: the oracle decides
                // whether that relative really is down)
                let glob = des::net::globals();
                let same_node = |r: &ModuleRef, m: usize| {
                    let path = module_path(&self.prog, m);
                    r.path().as_str() == path && glob.get(&ObjectPath::from(path.as_str())).map_or(false, |g| g.id() == r.id())
                };
                let mut inactive = 0u32;
                let mut roundtrip_ok = true;
                let parent_ok = match (spec.parent, cur.parent()) {
                    (-1, Err(MRE::NoEntry(_))) => true,
                    (p, Ok(pr)) if p >= 0 => {
                        // and back down: the parent's child of this name is this module
                        let back = std::panic::catch_unwind(std::panic::AssertUnwindSafe(|| pr.child(&spec.name)));
                        match back {
                            Ok(Ok(me)) => roundtrip_ok &= me.id() == cur.id(),
                            Ok(Err(MRE::CurrentlyInactive(_))) => inactive |= 1 << 31,
                            Ok(Err(_)) => roundtrip_ok = false,
                            Err(_) => {
                                crate::clear_panic();
                                roundtrip_ok = false;
                            }
                        }
                        same_node(&pr, p as usize)
                    }
                    (p, Err(MRE::CurrentlyInactive(_))) if p >= 0 => {
                        inactive |= 1;
                        true
                    }
                    _ => false,
                };
                let mut children_ok = true;
                let mut k = 0u32;
                for (ci, c) in self.prog.modules.iter().enumerate() {
                    let is_child = c.parent == self.idx as i32;
                    if is_child {
                        match cur.child(&c.name) {
                            // the handle must be the node the tree knows under this path, not merely one with the same path
                            Ok(ch) => {
                                children_ok &= same_node(&ch, ci);
                                // and back: the child's parent is this module (the edge exists in both directions)
                                let back = std::panic::catch_unwind(std::panic::AssertUnwindSafe(|| ch.parent()));
                                match back {
                                    Ok(Ok(p)) => roundtrip_ok &= p.id() == cur.id(),
                                    // (the way back fails with "inactive" if this module itself is down: des still calls start-up
                                    // stages and tear-down on such a module - the oracle knows whether it is)
                                    Ok(Err(MRE::CurrentlyInactive(_))) => inactive |= 1 << 31,
                                    Ok(Err(_)) => roundtrip_ok = false,
                                    Err(_) => {
                                        crate::clear_panic();
                                        roundtrip_ok = false;
                                    }
                                }
                            }
                            Err(MRE::CurrentlyInactive(_)) => inactive |= 1 << (1 + k.min(29)),
                            Err(_) => children_ok = false,
                        }
                        k += 1;
                    }
                }
                if cur.child("no-such-child-xyz").is_ok() {
                    children_ok = false;
                }
                // the global view of the simulation must know this module under its path
                let by_path = glob.get(&ObjectPath::from(expected_path.as_str()));
                let global_ok = by_path.map_or(false, |r| r.id() == cur.id());
                rec(self.idx, Ev::Query { parent_ok, children_ok, path_ok: cur.path().as_str() == expected_path && global_ok, name_ok: cur.name() == spec.name, inactive, roundtrip_ok });
            }
            Act::SelfMsg { delay_ns } => {
                let uid = uid_of(self.idx, site, ai, self.inc);
                schedule_in(Message::default().kind(SELF_KIND).src(uid_to_src(uid)), Duration::from_nanos(*delay_ns));
            }
            Act::Forward { .. } => {}
            Act::NotifyTask { to } => {
                crate::asy::notify_task(self.idx, *to as usize);
            }
            Act::SetCatching { v } => {
                let mut st = current().stereotyp();
                st.on_panic_catch = *v;
                current().set_stereotyp(st);
            }
        }
        true
    }

    fn schedule_beat(&self, i: usize, rel_ns: u64) {
        schedule_in(Message::default().kind(BEAT_KIND + i as u16).id(self.inc), Duration::from_nanos(rel_ns));
    }
}

pub fn module_path(prog: &NetProgram, idx: usize) -> String {
    let mut parts = vec![prog.modules[idx].name.clone()];
    let mut cur = prog.modules[idx].parent;
    let mut guard = 0;
    while cur >= 0 && guard < 64 {
        parts.push(prog.modules[cur as usize].name.clone());
        cur = prog.modules[cur as usize].parent;
        guard += 1;
    }
    parts.reverse();
    parts.join(".")
}

impl Module for ScriptMod {
    fn reset(&mut self) {
        if is_foreign(self.run_id) {
            return;
        }
        rec(self.idx, Ev::Reset { inc: self.inc });
        self.inc = self.inc.wrapping_add(1);
        self.rx_count = 0;
        if self.spec().reset_panics && self.inc == 1 {
            panic!("scripted panic in reset of module {}", self.idx);
        }
    }

    fn stack(&self, stack: ProcessingStack) -> ProcessingStack {
        let spec = self.spec();
        if spec.pes.is_empty() {
            return stack;
        }
        let base = self.prog.gstack.len();
        let mut own = ProcessingStack::default();
        for (i, p) in spec.pes.iter().enumerate() {
            own.append(ScriptPe { run_id: self.run_id, m: self.idx, id: (base + i) as u16, spec: p.clone(), prog: self.prog.clone(), token: crate::bodies::Token::pe() });
        }
        if spec.pes_prepend {
            own.append(stack);
            own
        } else {
            let mut s = stack;
            s.append(own);
            s
        }
    }

    fn num_sim_start_stages(&self) -> usize {
        eff_stages(self.spec()) as usize
    }

    fn at_sim_start(&mut self, stage: usize) {
        if is_foreign(self.run_id) || is_silent(self.idx) {
            return;
        }
        rec(self.idx, Ev::Start { stage: stage as u8, inc: self.inc });
        let spec = self.spec().clone();
        if spec.panic_at as usize == stage && spec.panic_inc == self.inc {
            if is_twin() {
                go_silent(self.idx);
                return;
            }
            rec(self.idx, Ev::PanicNow);
            panic!("scripted panic in at_sim_start({stage}) of module {}", self.idx);
        }
        if stage == 0 {
            if spec.chained {
                if let Some(b) = spec.beats.first() {
                    self.schedule_beat(0, b.at_ns);
                }
            } else {
                for (i, b) in spec.beats.iter().enumerate() {
                    self.schedule_beat(i, b.at_ns);
                }
            }
            crate::asy::spawn_tasks(self.idx, self.inc, &self.prog);
            for (ai, a) in spec.start_acts.iter().enumerate().take(8) {
                if matches!(a, Act::Send { .. } | Act::SelfMsg { .. } | Act::Random | Act::NotifyTask { .. } | Act::Shutdown { .. }) && !self.do_act(START_SITE, ai, a) {
                    break;
                }
            }
        }
    }

    fn handle_message(&mut self, msg: Message) {
        if is_foreign(self.run_id) || is_silent(self.idx) {
            return;
        }
        let kind = msg.header().kind;
        if kind >= BEAT_KIND && kind < BEAT_KIND + 0x0800 {
            // beats of an older incarnation are not ours (they cannot arrive: the module was inactive), ignore defensively
            let i = (kind - BEAT_KIND) as usize;
            let spec = self.spec().clone();
            if msg.header().id != self.inc || i >= spec.beats.len() {
                rec(self.idx, Ev::Beat { i: i as u16, inc: msg.header().id });
                return;
            }
            crate::intr::hook();
            rec(self.idx, Ev::Beat { i: i as u16, inc: self.inc });
            if spec.chained && i + 1 < spec.beats.len() {
                let d = spec.beats[i + 1].at_ns.saturating_sub(spec.beats[i].at_ns);
                self.schedule_beat(i + 1, d);
            }
            for (ai, a) in spec.beats[i].acts.iter().enumerate() {
                if !self.do_act(i, ai, a) {
                    break;
                }
            }
            return;
        }
        // data message (or self message)
        let uid = src_to_uid(msg.header().src);
        let (sender_m, last_m, last_g) = with_ctx(|c| {
            let sm = c.ids.get(&msg.header().sender_module_id.0).map_or(-1, |i| *i as i32);
            let (lm, lg) = match &msg.header().last_gate {
                Some(g) => {
                    let om = c.ids.get(&g.owner().id().0).map_or(-1, |i| *i as i32);
                    let lg = if om >= 0 {
                        c.flat_gates[om as usize].iter().position(|(n, _, p)| n == g.name() && *p == g.pos()).map_or(-1, |p| p as i32)
                    } else {
                        -1
                    };
                    (om, lg)
                }
                None => (-1, -1),
            };
            (sm, lm, lg)
        })
        .unwrap_or((-1, -1, -1));
        let receiver_ok = msg.header().receiver_module_id == current().id();
        rec(self.idx, Ev::Recv { uid, kind, inc: self.inc, sender_m, receiver_ok, last_m, last_g, len: msg.length() as u32 });
        if kind == SELF_KIND {
            return;
        }
        self.rx_count += 1;
        let spec = self.spec().clone();
        // a scripted panic on this receive happens while the handler still holds the message
        for r in &spec.rx {
            if r.nth == self.rx_count && matches!(r.act, Act::Panic) {
                let _held = msg;
                if is_twin() {
                    go_silent(self.idx);
                    return;
                }
                rec(self.idx, Ev::PanicNow);
                panic!("scripted panic in module {} while holding message {uid:#x}", self.idx);
            }
        }
        // forwarding: the very message object that arrived is sent on
        if let Some((ri, gate)) = spec.rx.iter().enumerate().find_map(|(ri, r)| match r.act {
            Act::Forward { gate } if r.nth == self.rx_count => Some((ri, gate)),
            _ => None,
        }) {
            if let Some((g, gi)) = self.gate_ref(gate) {
                if g.kind() != GateKind::Transit {
                    let nuid = uid_of(self.idx, RX_SITE_BASE + ri, 0, self.inc);
                    let mut msg = msg;
                    msg.header_mut().src = uid_to_src(nuid);
                    let (busy, fin, has) = match g.channel() {
                        Some(ch) => (ch.is_busy(), ch.transmission_finish_time().as_nanos() as u64, true),
                        None => (false, 0, false),
                    };
                    rec(self.idx, Ev::Offer { uid: nuid, gate: gi as u16, len: msg.length() as u32, busy, fin_ns: fin, has_chan: has, delay_ns: 0 });
                    send(msg, g);
                    return;
                }
            }
        }
        crate::bodies::on_receive(self.idx, uid, msg);
        for (ri, r) in spec.rx.iter().enumerate() {
            if r.nth == self.rx_count && !self.do_act(RX_SITE_BASE + ri, 0, &r.act) {
                break;
            }
        }
    }

    fn at_sim_end(&mut self) -> Result<(), RuntimeError> {
        if is_foreign(self.run_id) || is_silent(self.idx) {
            return Ok(());
        }
        rec(self.idx, Ev::End { inc: self.inc });
        if self.spec().panic_at == 200 {
            if is_twin() {
                go_silent(self.idx);
                return Ok(());
            }
            rec(self.idx, Ev::PanicNow);
            panic!("scripted panic in at_sim_end of module {}", self.idx);
        }
        let acts = self.spec().end_acts.clone();
        for (ai, a) in acts.iter().enumerate().take(8) {
            if matches!(a, Act::Send { .. } | Act::SelfMsg { .. } | Act::Random | Act::QueryTree) && !self.do_act(END_SITE, ai, a) {
                break;
            }
        }
        if self.spec().end_err {
            return Err(RuntimeError::from(ScriptedEndError));
        }
        Ok(())
    }
}

// ---------------------------------------------------------------- scripted processing element

pub struct ScriptPe {
    pub run_id: u64,
    pub m: usize,
    pub id: u16,
    pub spec: PeSpec,
    pub prog: Rc<NetProgram>,
    pub token: Option<crate::bodies::Token>,
}

impl ScriptPe {
    fn maybe_send(&self, hook: u8, n: usize) {
        if self.spec.send_hook != hook || n > 12 {
            return;
        }
        let flat = flat_gates(&self.prog.modules[self.m]);
        if flat.is_empty() {
            return;
        }
        let gi = self.spec.gate as usize % flat.len();
        let Some(g) = current().gate(&flat[gi].0, flat[gi].2) else { return };
        if g.kind() == GateKind::Transit {
            return;
        }
        let uid = uid_of(self.m, PE_SITE_BASE + self.id as usize, n & 0x3ff, 0);
        let msg = Message::default().kind(PE_KIND).src(uid_to_src(uid));
        rec(self.m, Ev::Offer { uid, gate: gi as u16, len: msg.length() as u32, busy: false, fin_ns: 0, has_chan: false, delay_ns: 0 });
        send(msg, g);
    }
}

thread_local! {
    static PE_SENDS: RefCell<usize> = const { RefCell::new(0) };
}
fn next_pe_send() -> usize {
    PE_SENDS.with(|p| {
        let mut p = p.borrow_mut();
        *p += 1;
        *p
    })
}

impl ProcessingElement for ScriptPe {
    fn event_start(&mut self) {
        if is_foreign(self.run_id) {
            return;
        }
        rec(self.m, Ev::PeStart { pe: self.id });
        if self.spec.send_hook == 1 {
            self.maybe_send(1, next_pe_send());
        }
    }
    fn incoming(&mut self, mut msg: Message) -> Option<Message> {
        if is_foreign(self.run_id) {
            return Some(msg);
        }
        let uid = src_to_uid(msg.header().src);
        let kind = msg.header().kind;
        rec(self.m, Ev::PeIn { pe: self.id, uid, kind });
        if self.spec.send_hook == 2 {
            self.maybe_send(2, next_pe_send());
        }
        // mode 3: consume scripted self messages and wake a task instead (the handler never sees them)
        if self.spec.mode == 3 && kind == SELF_KIND {
            crate::asy::notify_task(self.m, uid as usize);
            return None;
        }
        // beats are the module's own clockwork: never consumed or modified
        if kind >= SELF_KIND {
            return Some(msg);
        }
        // mode 4: a panic outside the module harness (it unwinds out of Runtime::run)
        if self.spec.mode == 4 && uid % self.spec.m.max(1) == self.spec.r % self.spec.m.max(1) {
            let _held = msg;
            panic!("scripted panic in processing element {} of module {}", self.id, self.m);
        }
        // mode 5: the element asks for a shutdown-and-restart of its module and passes the message on: the handler
        // must still see it, the shutdown happens at the end of the event
        if self.spec.mode == 5 && uid % self.spec.m.max(1) == self.spec.r % self.spec.m.max(1) {
            let go = with_ctx(|c| {
                c.pe_shutdowns += 1;
                c.pe_shutdowns <= 3
            })
            .unwrap_or(false);
            if go && !is_twin() {
                rec(self.m, Ev::ShutdownReq { restart: i64::from(self.spec.gate % 3) * 500_000_000 });
                current().shutdow_and_restart_in(Duration::from_nanos(u64::from(self.spec.gate % 3) * 500_000_000));
            }
            return Some(msg);
        }
        match self.spec.mode {
            1 => {
                msg.header_mut().kind = kind.wrapping_add(1) & 0x0fff;
                Some(msg)
            }
            2 => {
                let m = self.spec.m.max(1);
                if uid % m == self.spec.r % m {
                    crate::bodies::on_consume(self.m, uid, msg);
                    None
                } else {
                    Some(msg)
                }
            }
            _ => Some(msg),
        }
    }
    fn event_end(&mut self) {
        if is_foreign(self.run_id) {
            return;
        }
        rec(self.m, Ev::PeEnd { pe: self.id });
        if self.spec.send_hook == 3 {
            self.maybe_send(3, next_pe_send());
        }
    }
}

// ---------------------------------------------------------------- build + run

#[derive(Debug, Clone, Default)]
pub struct BuildLog {
    /// (link index, accepted)
    pub links: Vec<(usize, bool)>,
    /// (bad node index, rejected with panic)
    pub bad_nodes: Vec<(usize, bool)>,
    /// a regular node whose creation panicked (never expected)
    pub node_failed: Option<usize>,
    /// per gate (module, flat gate): kind (0,1,2), path as (m,g) list from this end, next_gate, path_end
    pub gate_info: Vec<((usize, usize), u8, Option<Vec<(i32, i32)>>)>,
    /// sanitized insertion order actually used
    pub order: Vec<usize>,
    /// the build was stopped after a rejected connect call
    pub aborted: bool,
}

#[derive(Debug, Default)]
pub struct NetResult {
    pub trace: Vec<Rec>,
    pub build: BuildLog,
    /// Ok(final time, event count, remaining events) or the list of errors (kind, module path)
    pub ok: Option<(u64, usize, usize)>,
    pub errors: Vec<(String, String)>,
    pub escaped_panic: Option<String>,
    pub ledger: crate::bodies::LedgerReport,
    pub active_at_end: Vec<bool>,
    pub started: bool,
    /// user code of an earlier simulation of this process ran during this one
    pub foreign: bool,
    pub block_log: Vec<(u64, u8, u32)>,
    /// absolute time of every injected message (program order; u64::MAX = not injected)
    pub injected_at: Vec<u64>,
    /// index of the first trace record of the second simulation of a re-run application
    pub rerun_from: Option<usize>,
}

pub fn sanitize_order(prog: &NetProgram) -> Vec<usize> {
    let nmod = prog.modules.len();
    let mut hint: Vec<usize> = prog.order.iter().map(|x| *x as usize).filter(|x| *x < nmod).collect();
    let mut seen = vec![false; nmod];
    hint.retain(|x| {
        let s = seen[*x];
        seen[*x] = true;
        !s
    });
    for i in 0..nmod {
        if !seen[i] {
            hint.push(i);
        }
    }
    // valid order: parents first, otherwise as hinted
    let mut out = Vec::with_capacity(nmod);
    let mut placed = vec![false; nmod];
    while out.len() < nmod {
        let mut progress = false;
        for &i in &hint {
            if placed[i] {
                continue;
            }
            let p = prog.modules[i].parent;
            let ok = p < 0 || (p as usize) >= nmod || placed[p as usize] || p as usize >= i && false;
            if ok {
                placed[i] = true;
                out.push(i);
                progress = true;
                break;
            }
        }
        if !progress {
            break;
        }
    }
    out
}

/// Normalises a program so that every structural reference is valid (parents precede children, names unique
/// among siblings, at most 255 modules). Shrunk programs stay interpretable.
pub fn normalise(p: &NetProgram) -> NetProgram {
    let mut q = p.clone();
    q.modules.truncate(200);
    q.blocks.truncate(8);
    let n = q.modules.len();
    for i in 0..n {
        let par = q.modules[i].parent;
        if par >= i as i32 || par < -1 {
            q.modules[i].parent = -1;
        }
        if q.modules[i].name.is_empty() || q.modules[i].name.contains('.') {
            q.modules[i].name = format!("m{i}");
        }
        q.modules[i].stages = q.modules[i].stages.clamp(1, 4);
        q.modules[i].beats.truncate(500);
    }
    // unique names among siblings
    for i in 0..n {
        let mut k = 0;
        loop {
            let clash = (0..i).any(|j| q.modules[j].parent == q.modules[i].parent && q.modules[j].name == q.modules[i].name);
            if !clash {
                break;
            }
            k += 1;
            q.modules[i].name = format!("{}x{}", q.modules[i].name, k);
        }
    }
    for l in &mut q.links {
        if n > 0 {
            l.am %= n as u32;
            l.bm %= n as u32;
        }
    }
    q
}

fn to_channel(c: &Chan) -> ChannelRef {
    Channel::new(ChannelMetrics {
        bitrate: c.bitrate as usize,
        latency: Duration::from_nanos(c.latency_ns),
        jitter: Duration::from_nanos(c.jitter_ns),
        drop_behaviour: match c.queue {
            -2 => ChannelDropBehaviour::Drop,
            -1 => ChannelDropBehaviour::Queue(None),
            x => ChannelDropBehaviour::Queue(Some(x.max(0) as usize)),
        },
    })
}

#[derive(Default, Clone)]
pub struct RunOpts {
    pub collect_gate_info: bool,
    /// C13 twin run: a scripted panic is replaced by "stop here and ignore everything from now on"
    pub twin: bool,
    /// instead of pausing the run, the messages of `NetProgram::injections` are put into the event set before the run
    /// starts, for these absolute times (one per injection, in program order)
    pub inject_before_start: Option<Vec<u64>>,
}

thread_local! {
    static TWIN: RefCell<bool> = const { RefCell::new(false) };
    static SILENT: RefCell<Vec<bool>> = const { RefCell::new(Vec::new()) };
}
fn is_twin() -> bool {
    TWIN.with(|t| *t.borrow())
}
pub fn twin_mode() -> bool {
    is_twin()
}

/// Invisible element at the bottom of every stack of models with tasks: marks the start of each module event
/// (also timer wake-ups, which have no module callback) for the per-event poll counter.
pub struct EpochPe;
impl ProcessingElement for EpochPe {
    fn event_start(&mut self) {
        crate::asy::event_boundary();
    }
}
fn is_silent(m: usize) -> bool {
    SILENT.with(|s| s.borrow().get(m).copied().unwrap_or(false))
}
fn go_silent(m: usize) {
    SILENT.with(|s| {
        let mut s = s.borrow_mut();
        if m >= s.len() {
            s.resize(m + 1, false);
        }
        s[m] = true;
    });
}

/// Executes a (normalised) program on the real net layer. Never panics itself: escaping panics are reported.
#[allow(clippy::too_many_lines)]
fn run_net_quiet(prog: &NetProgram, opts: &RunOpts) -> NetResult {
    let prog = Rc::new(normalise(prog));
    let mut res = NetResult::default();
    let nmod = prog.modules.len();
    let flat: Vec<Vec<(String, usize, usize)>> = prog.modules.iter().map(flat_gates).collect();
    CTX.with(|c| {
        *c.borrow_mut() = Some(RunCtx { trace: Vec::new(), ids: BTreeMap::new(), building: 0, prog: prog.clone(), flat_gates: flat.clone(), ledger: crate::bodies::Ledger::default(), foreign: false, pe_shutdowns: 0, block_log: Vec::new() });
    });
    RUN_ID.with(|r| *r.borrow_mut() += 1);
    PE_SENDS.with(|p| *p.borrow_mut() = 0);
    TWIN.with(|t| *t.borrow_mut() = opts.twin);
    SILENT.with(|s| s.borrow_mut().clear());
    crate::asy::reset_run();
    crate::asy::set_timers_elsewhere(prog.timers_elsewhere);

    let injected_at: RefCell<Vec<u64>> = RefCell::new(Vec::new());
    let rerun_from: std::cell::Cell<Option<usize>> = std::cell::Cell::new(None);
    let outcome = std::panic::catch_unwind(std::panic::AssertUnwindSafe(|| {
        let mut build = BuildLog::default();
        let mut sim = Sim::new(Inner { fail_end: prog.inner_end_err });
        let gp = prog.clone();
        let mk_stack = move || {
            let m = with_ctx(|c| c.building).unwrap_or(0);
            let mut st = ProcessingStack::default();
            if m >= 254 {
                // des's own module blocks and rejected nodes get no scripted elements
                return st;
            }
            for (i, p) in gp.gstack.iter().enumerate() {
                st.append(ScriptPe { run_id: current_run(), m, id: i as u16, spec: p.clone(), prog: gp.clone(), token: crate::bodies::Token::pe() });
            }
            st
        };
        let has_tasks = prog.modules.iter().any(|m| !m.tasks.is_empty());
        if has_tasks && prog.gstack.is_empty() {
            sim.set_stack(|| EpochPe);
        }
        if !prog.gstack.is_empty() {
            if prog.gstack_via_set {
                sim.set_stack(mk_stack);
            } else {
                sim = sim.with_stack(mk_stack);
            }
        }
        let order = sanitize_order(&prog);
        build.order = order.clone();
        let mut refs: Vec<Option<ModuleRef>> = vec![None; nmod];
        for (pos, &mi) in order.iter().enumerate() {
            for (bi, b) in prog.bad_nodes.iter().enumerate() {
                if b.pos as usize == pos {
                    let path = match b.kind {
                        0 => {
                            let of = b.of as usize % nmod.max(1);
                            if refs.get(of).map_or(true, Option::is_none) {
                                continue;
                            }
                            module_path(&prog, of)
                        }
                        _ => format!("ghost{}.child", b.of),
                    };
                    with_ctx(|c| c.building = 255);
                    let r = std::panic::catch_unwind(std::panic::AssertUnwindSafe(|| {
                        sim.node(path.as_str(), ScriptMod { run_id: current_run(), idx: 255, prog: Rc::new(NetProgram { modules: vec![ModSpec::default(); 256], ..Default::default() }), inc: 0, rx_count: 0, token: None });
                    }));
                    crate::clear_panic();
                    build.bad_nodes.push((bi, r.is_err()));
                }
            }
            with_ctx(|c| c.building = mi);
            let path = module_path(&prog, mi);
            let r = std::panic::catch_unwind(std::panic::AssertUnwindSafe(|| {
                let module = ScriptMod { run_id: current_run(), idx: mi, prog: prog.clone(), inc: 0, rx_count: 0, token: crate::bodies::Token::new_opt() };
                let par = prog.modules[mi].parent;
                let grand = if par >= 0 { prog.modules[par as usize].parent } else { -1 };
                if prog.modules[mi].scoped_build && grand >= 0 {
                    // scope = grandparent, relative path = "parent.name"
                    let rel = format!("{}.{}", prog.modules[par as usize].name, prog.modules[mi].name);
                    sim.node(module_path(&prog, grand as usize).as_str(), ScopedAdder { rel, module });
                } else {
                    sim.node(path.as_str(), module);
                }
            }));
            if r.is_err() {
                crate::clear_panic();
                build.node_failed = Some(mi);
                continue;
            }
            let mref = sim.get(&ObjectPath::from(path.as_str()));
            if let Some(mr) = &mref {
                with_ctx(|c| c.ids.insert(mr.id().0, mi));
                if prog.modules[mi].catching {
                    let mut st = Stereotyp::default();
                    st.on_panic_catch = true;
                    mr.set_stereotyp(st);
                }
                let mut seen = std::collections::BTreeSet::new();
                for (name, size) in &prog.modules[mi].gates {
                    if !seen.insert(name.clone()) {
                        continue;
                    }
                    let size = (*size).clamp(1, 8) as usize;
                    if size == 1 {
                        let _ = sim.gate(path.as_str(), name);
                    } else {
                        let _ = sim.gates(path.as_str(), name, size);
                    }
                }
            }
            refs[mi] = mref;
        }
        // des's own module blocks (their tasks / closures own ledger tokens)
        for (bi, kind) in prog.blocks.iter().enumerate().take(8) {
            use des::net::blocks::{AsyncFn, HandlerFn};
            if *kind >= 5 {
                continue; // built below
            }
            let name = format!("blk{bi}");
            with_ctx(|c| c.building = 254);
            let gen_ok = |mut rx: tokio::sync::mpsc::Receiver<Message>| {
                let tok = SendTok(crate::bodies::Token::task());
                async move {
                    let _t = tok;
                    while let Some(m) = rx.recv().await {
                        drop(m);
                    }
                }
            };
            let gen_res = |mut rx: tokio::sync::mpsc::Receiver<Message>| {
                let tok = SendTok(crate::bodies::Token::task());
                async move {
                    let _t = tok;
                    while let Some(m) = rx.recv().await {
                        drop(m);
                    }
                    Ok::<(), std::io::Error>(())
                }
            };
            match kind % 5 {
                1 => sim.node(name.as_str(), AsyncFn::new(gen_ok)),
                2 => sim.node(name.as_str(), AsyncFn::failable(gen_res)),
                3 => sim.node(name.as_str(), AsyncFn::io(gen_res)),
                4 => {
                    let tok = SendTok(crate::bodies::Token::new_opt().unwrap());
                    sim.node(name.as_str(), HandlerFn::new(move |m: Message| {
                        let _ = &tok;
                        drop(m);
                    }));
                }
                _ => {}
            }
        }
        // block kind 7: a joined AsyncFn whose handler, on its first message, asks for a shutdown-and-restart of its node and
        // then fails (AsyncFn::failable turns the error into a panic of the handler task)
        for (bi, kind) in prog.blocks.iter().enumerate().take(8) {
            if *kind != 7 {
                continue;
            }
            use des::net::blocks::AsyncFn;
            let name = format!("blk{bi}");
            sim.node(
                name.as_str(),
                AsyncFn::failable(move |mut rx: tokio::sync::mpsc::Receiver<Message>| async move {
                    if let Some(m) = rx.recv().await {
                        drop(m);
                        current().shutdow_and_restart_in(Duration::from_millis(100));
                        return Err(std::io::Error::new(std::io::ErrorKind::Other, "scripted failure of the block's handler"));
                    }
                    Ok::<(), std::io::Error>(())
                })
                .require_join(),
            );
            let gin = sim.gate(name.as_str(), "in");
            if let Some(g0) = flat.first().and_then(|f| f.first()).and_then(|(gname, _, pos)| refs[0].as_ref().and_then(|r| r.gate(gname, *pos))) {
                if g0.kind() == GateKind::Standalone {
                    g0.connect(gin, None);
                }
            }
        }
        // block kind 5 lives in its own loop: it owns no ledger token
        for (bi, kind) in prog.blocks.iter().enumerate().take(8) {
            if *kind != 5 {
                continue;
            }
            use des::net::blocks::AsyncFn;
            let name = format!("blk{bi}");
            let run_id = current_run();
            let b = bi as u8;
            sim.node(name.as_str(), AsyncFn::new(move |mut rx: tokio::sync::mpsc::Receiver<Message>| async move {
                while let Some(m) = rx.recv().await {
                    let uid = src_to_uid(m.header().src);
                    // the work is done by a task of its own; the handler continues when that task has finished
                    let worker = tokio::spawn(async move { uid.wrapping_mul(3) });
                    let r = worker.await.unwrap_or(0);
                    if r == uid.wrapping_mul(3) && !is_foreign(run_id) {
                        let now = SimTime::now().as_nanos() as u64;
                        with_ctx(|c| c.block_log.push((now, b, uid)));
                    }
                }
            }));
            let gin = sim.gate(name.as_str(), "in");
            if let Some(g0) = flat.first().and_then(|f| f.first()).and_then(|(gname, _, pos)| refs[0].as_ref().and_then(|r| r.gate(gname, *pos))) {
                if g0.kind() == GateKind::Standalone {
                    g0.connect(gin, None);
                }
            }
        }
        // links
        let gate_of = |m: usize, g: u32| -> Option<GateRef> {
            let f = &flat[m];
            if f.is_empty() {
                return None;
            }
            let (name, _, pos) = &f[g as usize % f.len()];
            refs[m].as_ref().and_then(|r| r.gate(name, *pos))
        };
        let mut shared: BTreeMap<u64, ChannelRef> = BTreeMap::new();
        for (li, l) in prog.links.iter().enumerate() {
            let (Some(a), Some(b)) = (gate_of(l.am as usize, l.ag), gate_of(l.bm as usize, l.bg)) else { continue };
            let ch = l.chan.as_ref().map(|c| {
                if prog.share_channels {
                    shared.entry(hash64(c)).or_insert_with(|| to_channel(c)).clone()
                } else {
                    to_channel(c)
                }
            });
            let r = std::panic::catch_unwind(std::panic::AssertUnwindSafe(|| {
                if l.flip {
                    b.connect(a, ch);
                } else {
                    a.connect(b, ch);
                }
            }));
            if r.is_err() {
                crate::clear_panic();
            }
            build.links.push((li, r.is_ok()));
            // (a rejected call leaves both gates exactly as they were: the build goes on, and everything that was
            // connected legally - before or after - works)
        }
        if build.aborted {
            drop(refs);
            drop(sim);
            return (build, None, false);
        }
        if prog.late_links.is_empty() {
            shared.clear();
        }
        if opts.collect_gate_info {
            for m in 0..nmod {
                for gi in 0..flat[m].len() {
                    let Some(g) = gate_of(m, gi as u32) else { continue };
                    let kind = match g.kind() {
                        GateKind::Standalone => 0,
                        GateKind::Endpoint => 1,
                        GateKind::Transit => 2,
                    };
                    let path = g.path_iter().map(|it| {
                        it.take(64)
                            .map(|con| {
                                let og = con.endpoint;
                                let om = with_ctx(|c| c.ids.get(&og.owner().id().0).copied()).flatten().map_or(-1, |x| x as i32);
                                let ogi = if om >= 0 { flat[om as usize].iter().position(|(n, _, p)| n == og.name() && *p == og.pos()).map_or(-1, |p| p as i32) } else { -1 };
                                (om, ogi)
                            })
                            .collect::<Vec<_>>()
                    });
                    // next_gate / path_end must agree with the iterator
                    if let Some(p) = &path {
                        let ng = g.next_gate().map(|x| x.str());
                        let pe = g.path_end().map(|x| x.str());
                        let exp_ng = p.first().and_then(|(om, og)| if *om >= 0 && *og >= 0 { gate_of(*om as usize, *og as u32).map(|x| x.str()) } else { None });
                        let exp_pe = p.last().and_then(|(om, og)| if *om >= 0 && *og >= 0 { gate_of(*om as usize, *og as u32).map(|x| x.str()) } else { None });
                        if ng != exp_ng || pe != exp_pe {
                            build.gate_info.push(((m, gi), 9, None));
                            continue;
                        }
                    }
                    build.gate_info.push(((m, gi), kind, path));
                }
            }
        }
        drop(refs);

        if prog.end_mode == 1 {
            drop(sim);
            return (build, None, false);
        }
        let mk_builder = || {
            let mut b = Builder::seeded(prog.seed).quiet();
            if prog.n > 0 && prog.t_ns > 0 {
                b = b.cqueue_options(prog.n, Duration::from_nanos(prog.t_ns));
            }
            if prog.max_events > 0 {
                b = b.max_itr(prog.max_events as usize);
            }
            if prog.max_time_ns > 0 {
                b = b.limit(RuntimeLimit::SimTime(SimTime::from_duration(Duration::from_nanos(prog.max_time_ns))));
            }
            b
        };
        let rt = mk_builder().build(sim.freeze());
        if prog.end_mode == 2 {
            drop(rt);
            return (build, None, false);
        }
        let inj_gate = |rt: &Runtime<Sim<Inner>>, j: &Inject| -> Option<GateRef> {
            let m = j.m as usize % nmod.max(1);
            let f = &flat[m];
            if f.is_empty() {
                return None;
            }
            let (name, _, pos) = &f[j.gate as usize % f.len()];
            rt.app.get(&ObjectPath::from(module_path(&prog, m).as_str())).and_then(|r| r.gate(name, *pos))
        };
        let inj_msg = |i: usize, j: &Inject| {
            let uid = uid_of(j.m as usize % nmod.max(1), INJ_SITE, i & 0x3ff, 0);
            Message::default().kind(1).src(uid_to_src(uid))
        };
        if let Some(times) = &opts.inject_before_start {
            let mut rt = rt;
            for (i, j) in prog.injections.iter().enumerate().take(8) {
                let Some(t) = times.get(i).copied().filter(|t| *t != u64::MAX) else { continue };
                if let Some(g) = inj_gate(&rt, j) {
                    rt.add_message_onto(g, inj_msg(i, j), SimTime::from_duration(Duration::from_nanos(t)));
                    injected_at.borrow_mut().push(t);
                }
            }
            let result = rt.run();
            return (build, Some(result), true);
        }
        if !prog.injections.is_empty() && prog.late_links.is_empty() {
            // stepped: pause, put a message onto a gate from outside, continue
            let mut rt = rt;
            rt.start();
            let mut inj: Vec<(usize, Inject)> = prog.injections.iter().cloned().enumerate().take(8).collect();
            inj.sort_by_key(|(_, j)| j.pause_ns);
            let mut at = vec![u64::MAX; prog.injections.len().min(8)];
            for (i, j) in &inj {
                rt.dispatch_events_until(SimTime::from_duration(Duration::from_nanos(j.pause_ns)));
                if let Some(g) = inj_gate(&rt, j) {
                    let t = rt.sim_time().as_nanos() as u64 + j.delay_ns;
                    rt.add_message_onto(g, inj_msg(*i, j), SimTime::from_duration(Duration::from_nanos(t)));
                    at[*i] = t;
                }
            }
            *injected_at.borrow_mut() = at;
            rt.dispatch_all();
            let result = rt.finish();
            return (build, Some(result), true);
        }
        if prog.late_links.is_empty() {
            let result = rt.run();
            if prog.rerun {
                // the application that an error-free run hands back goes through a second, complete simulation
                return match result {
                    Ok((app, _, _)) => {
                        rerun_from.set(Some(CTX.with(|c| c.borrow().as_ref().map_or(0, |c| c.trace.len()))));
                        let result = mk_builder().build(app).run();
                        (build, Some(result), true)
                    }
                    other => (build, Some(other), true),
                };
            }
            return (build, Some(result), true);
        }
        // stepped: pause, let the driver connect more gates, continue
        let mut rt = rt;
        rt.start();
        let mut late = prog.late_links.clone();
        late.sort_by_key(|l| l.0);
        for (at, l) in late.iter().take(8) {
            rt.dispatch_events_until(SimTime::from_duration(Duration::from_nanos(*at)));
            let find = |m: u32, g: u32| -> Option<GateRef> {
                let m = m as usize % nmod.max(1);
                let f = &flat[m];
                if f.is_empty() {
                    return None;
                }
                let (name, _, pos) = &f[g as usize % f.len()];
                rt.app.get(&ObjectPath::from(module_path(&prog, m).as_str())).and_then(|r| r.gate(name, *pos))
            };
            if let (Some(a), Some(b)) = (find(l.am, l.ag), find(l.bm, l.bg)) {
                let ch = l.chan.as_ref().map(|c| if prog.share_channels { shared.entry(hash64(c)).or_insert_with(|| to_channel(c)).clone() } else { to_channel(c) });
                // only legal connects are issued here (a rejected one would leave the gate locked)
                let free = |g: &GateRef| g.kind() != GateKind::Transit;
                if !std::sync::Arc::ptr_eq(&a, &b) && free(&a) && free(&b) {
                    if l.flip {
                        b.connect(a, ch);
                    } else {
                        a.connect(b, ch);
                    }
                }
            }
        }
        drop(shared);
        rt.dispatch_all();
        let result = rt.finish();
        (build, Some(result), true)
    }));

    crate::install_panic_hook();
    match outcome {
        Ok((build, result, started)) => {
            res.build = build;
            res.started = started;
            match result {
                Some(Ok((app, time, prof))) => {
                    res.ok = Some((time.as_nanos() as u64, prof.event_count, prof.remaining.len()));
                    res.active_at_end = (0..nmod)
                        .map(|m| app.get(&ObjectPath::from(module_path(&prog, m).as_str())).map_or(false, |r| r.is_active()))
                        .collect();
                    match prog.drop_order {
                        1 => {
                            drop(app);
                            drop(prof);
                        }
                        2 => {
                            drop(prof);
                            drop(app);
                        }
                        _ => drop((app, time, prof)),
                    }
                }
                Some(Err(e)) => {
                    for err in e.iter() {
                        let any = err.as_any();
                        if let Some(pe) = any.downcast_ref::<des::net::PanicError>() {
                            res.errors.push(("panic".into(), pe.path.as_str().to_string()));
                        } else if let Some(je) = any.downcast_ref::<des::net::JoinError>() {
                            let dbg = format!("{:?}", je.kind);
                            let k = if dbg.starts_with("NotFinished") {
                                "join-not-finished"
                            } else if dbg.starts_with("Paniced") {
                                "join-panic"
                            } else {
                                "join-tokio"
                            };
                            res.errors.push((k.into(), je.path.as_str().to_string()));
                        } else {
                            res.errors.push(("other".into(), format!("{err}")));
                        }
                    }
                    drop(e);
                }
                None => {}
            }
        }
        Err(p) => {
            let (msg, loc) = crate::take_panic(p);
            res.escaped_panic = Some(format!("{msg} at {loc}"));
        }
    }
    let ctx = CTX.with(|c| c.borrow_mut().take());
    if let Some(c) = ctx {
        res.foreign = c.foreign;
        res.block_log = c.block_log;
        res.injected_at = injected_at.into_inner();
        res.rerun_from = rerun_from.get();
        res.trace = c.trace;
        res.ledger = c.ledger.report();
    }
    res
}

/// what the waiting thread of the C20 fault does: it asks for a simulation of its own (and has to wait until the running one
/// is gone); the moment it gets it, it notes how many values of this process are still alive
pub fn wait_for_sim_and_count_live(seen: &std::sync::atomic::AtomicI64) {
    let sim = Sim::new(());
    seen.store(crate::bodies::LIVE_TOKENS.load(std::sync::atomic::Ordering::SeqCst), std::sync::atomic::Ordering::SeqCst);
    let rt = Builder::seeded(5).quiet().build(sim.freeze());
    drop(rt);
}

/// what the intruding thread of the C04 fault does: a net simulation of its own, built and dropped
pub fn build_and_drop_empty_sim() {
    let sim = Sim::new(());
    let rt = Builder::seeded(5).quiet().build(sim.freeze());
    drop(rt);
}

pub fn trace_hash(trace: &[Rec]) -> u64 {
    hash64(&trace)
}
