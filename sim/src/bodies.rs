//! Message bodies carrying ledger tokens (drop-exactly-once accounting) for the net engines.

use crate::net::with_ctx;
use des::prelude::*;

#[derive(Default)]
pub struct Ledger {
    /// uid the token belongs to (u32::MAX for module / element tokens), is_clone
    pub created: Vec<(u32, bool)>,
    pub drops: Vec<u8>,
}

#[derive(Default, Debug, Clone)]
pub struct LedgerReport {
    pub created: usize,
    pub clones: usize,
    /// tokens never dropped: (token id, uid)
    pub leaked: Vec<(usize, u32)>,
    /// tokens dropped more than once
    pub double: Vec<(usize, u32)>,
}

impl Ledger {
    pub fn report(&self) -> LedgerReport {
        let mut r = LedgerReport { created: self.created.len(), ..Default::default() };
        for (i, (uid, is_clone)) in self.created.iter().enumerate() {
            if *is_clone {
                r.clones += 1;
            }
            match self.drops.get(i).copied().unwrap_or(0) {
                0 => r.leaked.push((i, *uid)),
                1 => {}
                _ => r.double.push((i, *uid)),
            }
        }
        r
    }
}

#[derive(Debug)]
pub struct Token {
    pub id: usize,
    pub uid: u32,
}

impl Token {
    pub fn new(uid: u32, is_clone: bool) -> Token {
        let id = with_ctx(|c| {
            c.ledger.created.push((uid, is_clone));
            c.ledger.drops.push(0);
            c.ledger.created.len() - 1
        })
        .unwrap_or(usize::MAX);
        Token { id, uid }
    }
    pub fn new_opt() -> Option<Token> {
        Some(Token::new(u32::MAX, false))
    }
}

impl Clone for Token {
    fn clone(&self) -> Self {
        Token::new(self.uid, true)
    }
}

impl Drop for Token {
    fn drop(&mut self) {
        let id = self.id;
        with_ctx(|c| {
            if let Some(d) = c.ledger.drops.get_mut(id) {
                *d = d.saturating_add(1);
            }
        });
    }
}

#[derive(Debug, Clone)]
pub struct TokBody {
    pub tok: Token,
    pub uid: u32,
    pub declared: usize,
    pub check: u64,
}

impl MessageBody for TokBody {
    fn byte_len(&self) -> usize {
        self.declared
    }
}

pub fn check_of(uid: u32) -> u64 {
    (u64::from(uid) ^ 0x5151_7e7e_a0a0_0f0f).wrapping_mul(0x9E37_79B9_7F4A_7C15)
}

/// declared body length in bytes for a body selector
pub fn declared_len(body: u8) -> usize {
    match body % 6 {
        0 => 0,
        1 => 8,
        2 => 100,
        3 => 436,
        4 => 1000,
        _ => 4032,
    }
}

pub fn make_message(uid: u32, body: u8) -> Message {
    let msg = Message::default().kind(u16::from(body % 6));
    if body % 6 == 0 {
        msg
    } else {
        msg.with_content(TokBody { tok: Token::new(uid, false), uid, declared: declared_len(body), check: check_of(uid) })
    }
}

/// what a receiving module does with a data message (engine-specific scripts extend this)
pub fn on_receive(_m: usize, _uid: u32, msg: Message) {
    drop(msg);
}

pub fn on_consume(_m: usize, _uid: u32, msg: Message) {
    drop(msg);
}
