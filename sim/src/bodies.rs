//! Message bodies carrying ledger tokens (drop-exactly-once accounting) and the scripted body operations
//! (typed access, wrong-type access, clone, cast) of the net engines.

use crate::net::with_ctx;
use des::net::message::Body;
use des::prelude::*;
use std::collections::VecDeque;

#[derive(Default)]
pub struct Ledger {
    /// uid the token belongs to (u32::MAX for module / element / task tokens), is_clone
    pub created: Vec<(u32, bool)>,
    pub drops: Vec<u8>,
    /// failed body checks: (rule, message)
    pub errors: Vec<(String, String)>,
    pub ops: std::collections::BTreeMap<&'static str, u64>,
    /// zero-sized values with a destructor cannot carry a token id: counted
    pub zst_created: u64,
    pub zst_dropped: u64,
}

#[derive(Default, Debug, Clone)]
pub struct LedgerReport {
    pub zst_created: u64,
    pub zst_dropped: u64,
    pub created: usize,
    pub clones: usize,
    /// tokens never dropped: (token id, uid)
    pub leaked: Vec<(usize, u32)>,
    /// tokens dropped more than once
    pub double: Vec<(usize, u32)>,
    pub errors: Vec<(String, String)>,
    pub ops: std::collections::BTreeMap<&'static str, u64>,
}

impl Ledger {
    pub fn report(&self) -> LedgerReport {
        let mut r = LedgerReport { created: self.created.len(), errors: self.errors.clone(), ops: self.ops.clone(), zst_created: self.zst_created, zst_dropped: self.zst_dropped, ..Default::default() };
        for (i, (uid, is_clone)) in self.created.iter().enumerate() {
            if *is_clone {
                r.clones += 1;
            }
            match self.drops.get(i).copied().unwrap_or(0) {
                0 => r.leaked.push((i, *uid)),
                1 => {}
                _ => r.double.push((i, *uid)),
            }
        }
        r
    }
}

fn body_error(rule: &str, msg: String) {
    with_ctx(|c| {
        if c.ledger.errors.len() < 8 {
            c.ledger.errors.push((rule.to_string(), msg));
        }
    });
}
fn op(name: &'static str) {
    with_ctx(|c| *c.ledger.ops.entry(name).or_insert(0) += 1);
}

pub const TOKEN_MODULE: u32 = u32::MAX;
pub const TOKEN_PE: u32 = u32::MAX - 1;
pub const TOKEN_TASK: u32 = u32::MAX - 2;

/// number of tokens alive in the whole process (all threads)
pub static LIVE_TOKENS: std::sync::atomic::AtomicI64 = std::sync::atomic::AtomicI64::new(0);

#[derive(Debug)]
pub struct Token {
    pub id: usize,
    pub uid: u32,
}

impl Token {
    pub fn new(uid: u32, is_clone: bool) -> Token {
        let id = with_ctx(|c| {
            c.ledger.created.push((uid, is_clone));
            c.ledger.drops.push(0);
            c.ledger.created.len() - 1
        })
        .unwrap_or(usize::MAX);
        LIVE_TOKENS.fetch_add(1, std::sync::atomic::Ordering::SeqCst);
        Token { id, uid }
    }
    pub fn new_opt() -> Option<Token> {
        Some(Token::new(TOKEN_MODULE, false))
    }
    pub fn pe() -> Option<Token> {
        Some(Token::new(TOKEN_PE, false))
    }
    pub fn task() -> Token {
        Token::new(TOKEN_TASK, false)
    }
}

impl Clone for Token {
    fn clone(&self) -> Self {
        Token::new(self.uid, true)
    }
}

impl Drop for Token {
    fn drop(&mut self) {
        LIVE_TOKENS.fetch_sub(1, std::sync::atomic::Ordering::SeqCst);
        let id = self.id;
        with_ctx(|c| {
            if let Some(d) = c.ledger.drops.get_mut(id) {
                *d = d.saturating_add(1);
            }
        });
    }
}

pub fn check_of(uid: u32) -> u64 {
    (u64::from(uid) ^ 0x5151_7e7e_a0a0_0f0f).wrapping_mul(0x9E37_79B9_7F4A_7C15)
}

// ---------------------------------------------------------------- body types

#[derive(Debug, Clone)]
pub struct TokBody {
    pub tok: Token,
    pub uid: u32,
    pub declared: usize,
    pub check: u64,
}
impl MessageBody for TokBody {
    fn byte_len(&self) -> usize {
        self.declared
    }
}
/// a body whose measurement fails
#[derive(Debug, Clone)]
pub struct PanicLen {
    #[allow(dead_code)]
    t: TokBody,
}
impl MessageBody for PanicLen {
    fn byte_len(&self) -> usize {
        panic!("scripted: byte_len of this body panics")
    }
}
impl TokBody {
    fn new(uid: u32, declared: usize) -> Self {
        TokBody { tok: Token::new(uid, false), uid, declared, check: check_of(uid) }
    }
    fn ok(&self, uid: u32) -> bool {
        self.uid == uid && self.check == check_of(uid)
    }
}

#[derive(Debug, Clone, MessageBody)]
pub struct DStruct {
    pub a: u32,
    pub t: TokBody,
    pub s: String,
    /// (a field whose name starts with an underscore is a field like every other: it is part of the measured length)
    pub _reserved: u16,
}

#[derive(Debug, Clone, MessageBody)]
pub enum DEnum {
    Unit,
    Tuple(u16, TokBody),
    Named { x: u64, t: TokBody, extra: String },
}

#[derive(Debug, Clone, MessageBody)]
pub struct DGen<T: MessageBody> {
    pub v: T,
    pub w: u8,
}

#[derive(Debug, Clone, MessageBody)]
pub struct DNested {
    pub inner: DGen<DStruct>,
    pub e: DEnum,
    pub o: Option<u32>,
}

#[derive(Debug, Clone, MessageBody)]
pub struct Zst;

#[derive(Debug, MessageBody)]
pub struct NoClone {
    pub t: TokBody,
}

/// zero-sized, but with a destructor that must run exactly once
#[derive(Debug, MessageBody)]
pub struct ZstDrop;
impl ZstDrop {
    fn new() -> Self {
        with_ctx(|c| c.ledger.zst_created += 1);
        ZstDrop
    }
}
impl Clone for ZstDrop {
    fn clone(&self) -> Self {
        ZstDrop::new()
    }
}
impl Drop for ZstDrop {
    fn drop(&mut self) {
        with_ctx(|c| c.ledger.zst_dropped += 1);
    }
}

/// a body that implements neither Debug nor MessageBody: its length is its size in memory
#[derive(Clone)]
pub struct Raw100 {
    pub tok: Token,
    pub bytes: [u8; 84],
}

impl MessageBody for Raw100 {
    fn byte_len(&self) -> usize {
        std::mem::size_of::<Raw100>()
    }
}

pub enum TwinOp {
    Make,
    Check,
}

/// Two distinct types with the same name (declared in sibling blocks, as a macro expanded twice would do): a body of
/// one of them must never be readable as the other.
pub fn twin(uid: u32, op: TwinOp, msg: &mut Message) {
    let first = uid % 2 == 0;
    {
        #[derive(Debug, Clone, MessageBody)]
        struct Twin {
            t: TokBody,
        }
        match op {
            TwinOp::Make if first => msg.set_content(Twin { t: TokBody::new(uid, tok_len(uid)) }),
            TwinOp::Check => {
                let readable = msg.try_content::<Twin>().is_some() || msg.can_cast::<Twin>();
                if readable != first {
                    body_error(if readable { "wrong-type-read" } else { "value-changed" }, format!(
                        "message {uid:#x}: a body of one of two equally named types was {} as the first of them", if readable { "readable" } else { "not readable" }));
                }
                if let Some(v) = msg.try_content::<Twin>() {
                    if !v.t.ok(uid) {
                        body_error("value-changed", format!("message {uid:#x}: twin body altered"));
                    }
                }
            }
            TwinOp::Make => {}
        }
    }
    {
        #[derive(Debug, Clone, MessageBody)]
        struct Twin {
            x: u64,
            t: TokBody,
        }
        match op {
            TwinOp::Make if !first => msg.set_content(Twin { x: check_of(uid), t: TokBody::new(uid, tok_len(uid)) }),
            TwinOp::Check => {
                let readable = msg.try_content::<Twin>().is_some() || msg.can_cast::<Twin>();
                if readable == first {
                    body_error(if readable { "wrong-type-read" } else { "value-changed" }, format!(
                        "message {uid:#x}: a body of one of two equally named types was {} as the second of them", if readable { "readable" } else { "not readable" }));
                }
                if let Some(v) = msg.try_content::<Twin>() {
                    if v.x != check_of(uid) || !v.t.ok(uid) {
                        body_error("value-changed", format!("message {uid:#x}: twin body altered"));
                    }
                }
            }
            TwinOp::Make => {}
        }
    }
}

/// layout compatible with u64 but a different type
#[derive(Debug, Clone, MessageBody)]
pub struct OneField(pub u64);

pub const N_BODIES: u8 = 24;

fn tok_len(uid: u32) -> usize {
    [8usize, 100, 436, 1000][(uid as usize >> 3) % 4]
}

/// declared body length in bytes, computed independently of `Message::length`
pub fn declared_len_uid(body: u8, uid: u32) -> usize {
    match body % N_BODIES {
        0 => 0,
        1 => 8,
        2 => 100,
        3 => 436,
        4 => 1000,
        5 => 4032,
        6 => 8,                                                // u64
        7 => format!("s{uid}-{}", "y".repeat(uid as usize % 17)).len(), // String
        8 => if uid % 2 == 0 { tok_len(uid) } else { 0 },      // Option<TokBody>
        9 => (0..(uid % 4) as usize).map(|k| tok_len(uid + k as u32)).sum(), // Vec<TokBody>
        10 => tok_len(uid),                                    // Box<TokBody>
        11 => 4 + tok_len(uid) + 3 + 2,                        // DStruct {a, t, s:"abc", _reserved}
        12 => match uid % 3 {                                  // DEnum: active variant only
            0 => 0,
            1 => 2 + tok_len(uid),
            _ => 8 + tok_len(uid) + 5,
        },
        13 => tok_len(uid) + 1,                                // DGen<TokBody>
        14 => (4 + tok_len(uid) + 3 + 2 + 1) + (2 + tok_len(uid + 1)) + if uid % 2 == 0 { 4 } else { 0 }, // DNested
        15 => 0,                                               // Zst
        16 => tok_len(uid),                                    // NoClone
        17 => if uid % 2 == 0 { tok_len(uid) } else { 2 },     // Result<TokBody, String>
        18 => tok_len(uid) + tok_len(uid + 1),                 // [TokBody; 2]
        19 => (0..(uid % 4) as usize).map(|k| tok_len(uid + k as u32)).sum(), // VecDeque<TokBody> (ring buffer wrapped)
        20 => 0,                                               // ZstDrop
        21 => if uid % 2 == 0 { tok_len(uid) } else { 8 + tok_len(uid) }, // one of two distinct types that share their type name
        22 => std::mem::size_of::<Raw100>(),                   // non-debugable body: charged with its size in memory
        _ => [1usize << 29, 1 << 30, (1 << 31) + 5][(uid as usize >> 2) % 3], // bulk transfer modelled as one message (Body::new_with_len)
    }
}

/// kept for the simple engines (length depends on the selector only for selectors 0..=5)
pub fn declared_len(body: u8) -> usize {
    declared_len_uid(body % 6, 0)
}

pub fn make_message(uid: u32, body: u8) -> Message {
    let k = body % N_BODIES;
    let mut msg = Message::default().kind(u16::from(k));
    match k {
        0 => {}
        1..=5 => msg.set_content(TokBody::new(uid, declared_len_uid(k, uid))),
        6 => msg.set_content(check_of(uid)),
        7 => msg.set_content(format!("s{uid}-{}", "y".repeat(uid as usize % 17))),
        8 => msg.set_content(if uid % 2 == 0 { Some(TokBody::new(uid, tok_len(uid))) } else { None }),
        9 => msg.set_content((0..uid % 4).map(|k| TokBody::new(uid, tok_len(uid + k))).collect::<Vec<_>>()),
        10 => msg.set_content(Box::new(TokBody::new(uid, tok_len(uid)))),
        11 => msg.set_content(DStruct { a: uid, t: TokBody::new(uid, tok_len(uid)), s: "abc".into(), _reserved: 7 }),
        12 => msg.set_content(match uid % 3 {
            0 => DEnum::Unit,
            1 => DEnum::Tuple(7, TokBody::new(uid, tok_len(uid))),
            _ => DEnum::Named { x: check_of(uid), t: TokBody::new(uid, tok_len(uid)), extra: "12345".into() },
        }),
        13 => msg.set_content(DGen { v: TokBody::new(uid, tok_len(uid)), w: 9 }),
        14 => msg.set_content(DNested {
            inner: DGen { v: DStruct { a: uid, t: TokBody::new(uid, tok_len(uid)), s: "xyz".into(), _reserved: 7 }, w: 1 },
            e: DEnum::Tuple(1, TokBody::new(uid, tok_len(uid + 1))),
            o: if uid % 2 == 0 { Some(uid) } else { None },
        }),
        15 => msg.set_content(Zst),
        16 => msg.set_content_non_clonable(NoClone { t: TokBody::new(uid, tok_len(uid)) }),
        17 => msg.set_content::<Result<TokBody, String>>(if uid % 2 == 0 { Ok(TokBody::new(uid, tok_len(uid))) } else { Err("no".into()) }),
        18 => msg.set_content([TokBody::new(uid, tok_len(uid)), TokBody::new(uid, tok_len(uid + 1))]),
        19 => {
            // built so that the ring buffer is wrapped: the elements live in two slices
            let n = uid % 4;
            let mut v: VecDeque<TokBody> = VecDeque::with_capacity(4);
            for k in 1..n {
                v.push_back(TokBody::new(uid, tok_len(uid + k)));
            }
            if n > 0 {
                v.push_front(TokBody::new(uid, tok_len(uid)));
            }
            msg.set_content(v);
        }
        20 => msg.set_content(ZstDrop::new()),
        21 => twin(uid, TwinOp::Make, &mut msg),
        22 => msg.set_content_non_debugable(Raw100 { tok: Token::new(uid, false), bytes: [uid as u8; 84] }),
        _ => msg.set_body(Body::new_with_len(TokBody::new(uid, 0), declared_len_uid(k, uid))),
    }
    msg
}

// ---------------------------------------------------------------- scripted operations

fn wrong_type_access(uid: u32, k: u8, msg: &Message, which: u32) {
    // any type other than the stored one must not be readable, in particular layout-compatible ones
    macro_rules! must_fail {
        ($t:ty, $name:expr) => {
            if msg.try_content::<$t>().is_some() || msg.can_cast::<$t>() {
                body_error("wrong-type-read", format!("message {uid:#x} (body kind {k}) could be read as {}", $name));
            }
        };
    }
    op("wrong_type_access");
    match which % 6 {
        0 => {
            if k != 6 {
                must_fail!(u64, "u64");
            }
            must_fail!(i64, "i64");
        }
        1 => {
            must_fail!([u8; 8], "[u8; 8]");
            must_fail!(OneField, "OneField(u64)");
        }
        2 => {
            if !(1..=5).contains(&k) && k != 23 {
                must_fail!(TokBody, "TokBody");
            }
            if k != 10 {
                must_fail!(Box<TokBody>, "Box<TokBody>");
            }
        }
        3 => {
            if k != 8 {
                must_fail!(Option<TokBody>, "Option<TokBody>");
            }
            if k != 11 {
                must_fail!(DStruct, "DStruct");
            }
        }
        4 => {
            if k != 7 {
                must_fail!(String, "String");
            }
            must_fail!(&'static str, "&str");
            if k != 15 {
                must_fail!(Zst, "Zst");
            }
            must_fail!((), "()");
        }
        _ => {
            if k != 13 {
                must_fail!(DGen<TokBody>, "DGen<TokBody>");
            }
            must_fail!(DGen<u64>, "DGen<u64>");
            if k != 9 {
                must_fail!(Vec<TokBody>, "Vec<TokBody>");
            }
        }
    }
}

fn failed_cast(uid: u32, k: u8, msg: Message, which: u32) -> Message {
    op("failed_cast");
    macro_rules! try_wrong {
        ($t:ty, $name:expr, $m:expr) => {
            match $m.try_cast::<$t>() {
                Ok(_) => {
                    body_error("wrong-type-cast", format!("message {uid:#x} (body kind {k}) was cast to {}", $name));
                    return Message::default();
                }
                Err(m) => m,
            }
        };
    }
    let len = msg.length();
    let m = match which % 4 {
        0 => {
            let m = try_wrong!(i64, "i64", msg);
            try_wrong!(OneField, "OneField(u64)", m)
        }
        1 => {
            if k == 10 {
                try_wrong!(TokBody, "TokBody", msg)
            } else {
                try_wrong!(Box<TokBody>, "Box<TokBody>", msg)
            }
        }
        2 => {
            if k == 11 {
                try_wrong!(DGen<TokBody>, "DGen<TokBody>", msg)
            } else {
                try_wrong!(DStruct, "DStruct", msg)
            }
        }
        _ => {
            let m = try_wrong!([u8; 8], "[u8; 8]", msg);
            try_wrong!(u128, "u128", m)
        }
    };
    if m.length() != len {
        body_error("failed-cast-changed-message", format!("message {uid:#x}: length {len} before a failed cast, {} after", m.length()));
    }
    m
}

/// reads the stored value with its real type and compares it with what was put in
fn right_type_read(uid: u32, k: u8, msg: &Message) {
    op("typed_read");
    let bad = |what: &str| body_error("value-changed", format!("message {uid:#x} (body kind {k}): {what}"));
    match k {
        0 => {
            if msg.try_content::<TokBody>().is_some() {
                bad("an empty body yields a value");
            }
        }
        1..=5 => match msg.try_content::<TokBody>() {
            Some(t) if t.ok(uid) && msg.can_cast::<TokBody>() => {}
            _ => bad("TokBody not readable or altered"),
        },
        6 => {
            if msg.try_content::<u64>() != Some(&check_of(uid)) {
                bad("u64 value differs");
            }
        }
        7 => {
            if msg.try_content::<String>().map(String::as_str) != Some(format!("s{uid}-{}", "y".repeat(uid as usize % 17)).as_str()) {
                bad("String value differs");
            }
        }
        8 => match msg.try_content::<Option<TokBody>>() {
            Some(Some(t)) if uid % 2 == 0 && t.ok(uid) => {}
            Some(None) if uid % 2 == 1 => {}
            _ => bad("Option<TokBody> differs"),
        },
        9 => match msg.try_content::<Vec<TokBody>>() {
            Some(v) if v.len() == (uid % 4) as usize && v.iter().all(|t| t.ok(uid)) => {}
            _ => bad("Vec<TokBody> differs"),
        },
        10 => match msg.try_content::<Box<TokBody>>() {
            Some(t) if t.ok(uid) => {}
            _ => bad("Box<TokBody> differs"),
        },
        11 => match msg.try_content::<DStruct>() {
            Some(d) if d.a == uid && d.t.ok(uid) && d.s == "abc" => {}
            _ => bad("DStruct differs"),
        },
        12 => match (uid % 3, msg.try_content::<DEnum>()) {
            (0, Some(DEnum::Unit)) => {}
            (1, Some(DEnum::Tuple(7, t))) if t.ok(uid) => {}
            (2, Some(DEnum::Named { x, t, extra })) if *x == check_of(uid) && t.ok(uid) && extra == "12345" => {}
            _ => bad("DEnum differs"),
        },
        13 => match msg.try_content::<DGen<TokBody>>() {
            Some(d) if d.v.ok(uid) && d.w == 9 => {}
            _ => bad("DGen<TokBody> differs"),
        },
        14 => match msg.try_content::<DNested>() {
            Some(d) if d.inner.v.a == uid && d.inner.v.t.ok(uid) && d.inner.w == 1 && d.o == if uid % 2 == 0 { Some(uid) } else { None } => {}
            _ => bad("DNested differs"),
        },
        15 => {
            if msg.try_content::<Zst>().is_none() {
                bad("Zst not readable");
            }
        }
        16 => match msg.try_content::<NoClone>() {
            Some(n) if n.t.ok(uid) => {}
            _ => bad("NoClone differs"),
        },
        17 => match msg.try_content::<Result<TokBody, String>>() {
            Some(Ok(t)) if uid % 2 == 0 && t.ok(uid) => {}
            Some(Err(e)) if uid % 2 == 1 && e == "no" => {}
            _ => bad("Result differs"),
        },
        18 => match msg.try_content::<[TokBody; 2]>() {
            Some(a) if a[0].ok(uid) && a[1].ok(uid) => {}
            _ => bad("[TokBody; 2] differs"),
        },
        19 => match msg.try_content::<VecDeque<TokBody>>() {
            Some(v) if v.len() == (uid % 4) as usize && v.iter().all(|t| t.ok(uid)) => {}
            _ => bad("VecDeque<TokBody> differs"),
        },
        20 => {
            if msg.try_content::<ZstDrop>().is_none() {
                bad("ZstDrop not readable");
            }
        }
        21 => {} // checked by `twin` (the types are only nameable inside it)
        22 => match msg.try_content::<Raw100>() {
            Some(r) if r.bytes.iter().all(|b| *b == uid as u8) => {}
            _ => bad("Raw100 differs"),
        },
        _ => match msg.try_content::<TokBody>() {
            Some(t) if t.ok(uid) => {}
            _ => bad("bulk body (TokBody with explicit length) not readable or altered"),
        },
    }
}

fn successful_cast(uid: u32, k: u8, msg: Message) {
    op("successful_cast");
    let bad = |what: &str| body_error("cast-value-changed", format!("message {uid:#x} (body kind {k}): {what}"));
    macro_rules! cast_ok {
        ($t:ty, $check:expr) => {
            match msg.try_cast::<$t>() {
                Ok((v, _hdr)) => {
                    #[allow(clippy::redundant_closure_call)]
                    if !($check)(&v) {
                        bad("value cast out differs from the value put in");
                    }
                }
                Err(_) => bad("cast to the stored type failed"),
            }
        };
    }
    match k {
        0 => drop(msg),
        1..=5 => cast_ok!(TokBody, |t: &TokBody| t.ok(uid)),
        6 => cast_ok!(u64, |v: &u64| *v == check_of(uid)),
        7 => cast_ok!(String, |s: &String| s.starts_with(&format!("s{uid}-"))),
        8 => cast_ok!(Option<TokBody>, |o: &Option<TokBody>| o.as_ref().map_or(uid % 2 == 1, |t| t.ok(uid))),
        9 => cast_ok!(Vec<TokBody>, |v: &Vec<TokBody>| v.len() == (uid % 4) as usize),
        10 => cast_ok!(Box<TokBody>, |t: &Box<TokBody>| t.ok(uid)),
        11 => cast_ok!(DStruct, |d: &DStruct| d.t.ok(uid)),
        12 => cast_ok!(DEnum, |_d: &DEnum| true),
        13 => cast_ok!(DGen<TokBody>, |d: &DGen<TokBody>| d.v.ok(uid)),
        14 => cast_ok!(DNested, |d: &DNested| d.inner.v.t.ok(uid)),
        15 => cast_ok!(Zst, |_z: &Zst| true),
        // NoClone is not Send-bounded differently; all our types are Send
        16 => cast_ok!(NoClone, |n: &NoClone| n.t.ok(uid)),
        17 => cast_ok!(Result<TokBody, String>, |r: &Result<TokBody, String>| r.as_ref().map_or(uid % 2 == 1, |t| t.ok(uid))),
        18 => cast_ok!([TokBody; 2], |a: &[TokBody; 2]| a[0].ok(uid)),
        19 => cast_ok!(VecDeque<TokBody>, |v: &VecDeque<TokBody>| v.len() == (uid % 4) as usize),
        20 => cast_ok!(ZstDrop, |_z: &ZstDrop| true),
        21 => drop(msg),
        22 => cast_ok!(Raw100, |r: &Raw100| r.bytes[0] == uid as u8),
        _ => cast_ok!(TokBody, |t: &TokBody| t.ok(uid)),
    }
}

/// Applies the receiver's scripted operations to a data message. `ops` is the module's op list, indexed by uid.
pub fn apply_ops(uid: u32, msg: Message, ops: &[u8]) {
    let k = msg.header().kind as u8 % N_BODIES;
    let mut msg = msg;
    // length as the generator computes it, independent of Message::length
    let exp = 64 + declared_len_uid(k, uid);
    if msg.header().kind < 0x0fff && u16::from(k) == msg.header().kind && msg.length() != exp {
        body_error("length", format!("message {uid:#x} (body kind {k}) reports length {}, header 64 + declared body length = {exp}", msg.length()));
    }
    if k == 21 {
        op("twin_type_check");
        twin(uid, TwinOp::Check, &mut msg);
    }
    if ops.is_empty() {
        drop(msg);
        return;
    }
    let n = 1 + (uid as usize % 4);
    for j in 0..n {
        let o = ops[(uid as usize + j) % ops.len()];
        match o % 10 {
            8 => {
                // Clone::clone_from in both directions: onto a message that already carries a body from one that has none
                // (the old value must be gone: dropped, not readable, not measured), and the other way round
                op("clone_from");
                if k != 16 {
                    let mut target = make_message(uid ^ 0x5555, 1 + (uid % 5) as u8);
                    let header_only = Message::default().kind(0);
                    target.clone_from(&header_only);
                    if target.length() != 64 || target.try_content::<TokBody>().is_some() {
                        body_error("clone-from", format!("message {uid:#x}: after clone_from(a message without body) the target reports length {} and {} a body", target.length(), if target.try_content::<TokBody>().is_some() { "still yields" } else { "yields no" }));
                    }
                    drop(target);
                    let mut empty = Message::default();
                    empty.clone_from(&msg);
                    right_type_read(uid, k, &empty);
                    if empty.length() != msg.length() {
                        body_error("clone-from", format!("message {uid:#x}: clone_from copy has length {}, the original {}", empty.length(), msg.length()));
                    }
                    drop(empty);
                }
            }
            9 => {
                // a body whose byte_len panics while the message is built (the user catches the panic): the value is
                // dropped exactly once all the same
                op("byte_len_panics");
                let r = std::panic::catch_unwind(|| {
                    let mut m = Message::default();
                    m.set_content(PanicLen { t: TokBody::new(uid ^ 0x7777, 1) });
                    m
                });
                if r.is_ok() {
                    body_error("length", format!("message {uid:#x}: a body whose byte_len panics was accepted"));
                }
                crate::clear_panic();
            }
            7 => {
                // the body is replaced by another value of the same type with a different length
                op("set_content_again");
                let new_len = match k {
                    7 => {
                        let v = "z".repeat(200 + uid as usize % 50);
                        let n = v.len();
                        msg.set_content(v);
                        Some(n)
                    }
                    9 => {
                        let v: Vec<TokBody> = (0..5).map(|j| TokBody::new(uid, 10 + j)).collect();
                        msg.set_content(v);
                        Some(10 + 11 + 12 + 13 + 14)
                    }
                    6 => {
                        msg.set_content(7u64);
                        Some(8)
                    }
                    _ => None,
                };
                if let Some(n) = new_len {
                    if msg.length() != 64 + n {
                        body_error("length", format!("message {uid:#x} (body kind {k}): after the body was replaced by a value of {n} bytes the message reports length {}", msg.length()));
                    }
                    drop(msg);
                    return;
                }
            }
            0 => right_type_read(uid, k, &msg),
            1 => wrong_type_access(uid, k, &msg, uid + j as u32),
            2 => {
                op("try_clone");
                match msg.try_clone() {
                    Some(c) => {
                        if k == 16 {
                            body_error("clone-non-clonable", format!("message {uid:#x}: a non-clonable body was cloned"));
                        }
                        right_type_read(uid, k, &c);
                        if c.length() != msg.length() {
                            body_error("clone-length", format!("message {uid:#x}: clone has length {} original {}", c.length(), msg.length()));
                        }
                        drop(c);
                    }
                    None => {
                        if k != 16 {
                            body_error("clone-failed", format!("message {uid:#x} (body kind {k}): try_clone of a clonable body returned None"));
                        }
                    }
                }
            }
            3 => {
                if k != 16 {
                    op("clone");
                    let c = msg.clone();
                    right_type_read(uid, k, &c);
                    drop(msg);
                    msg = c; // keep the clone, drop the original
                }
            }
            4 => msg = failed_cast(uid, k, msg, uid + j as u32),
            5 => {
                successful_cast(uid, k, msg);
                return;
            }
            _ => {
                drop(msg);
                return;
            }
        }
    }
    right_type_read(uid, k, &msg);
    drop(msg);
}

/// what a receiving module does with a data message
pub fn on_receive(m: usize, uid: u32, msg: Message) {
    let ops: Vec<u8> = with_ctx(|c| c.prog.modules.get(m).map(|s| s.rx_ops.clone()).unwrap_or_default()).unwrap_or_default();
    if msg.header().kind >= u16::from(N_BODIES) {
        // self messages, element messages or messages whose kind an element rewrote: no typed access
        drop(msg);
        return;
    }
    apply_ops(uid, msg, &ops);
}

pub fn on_consume(m: usize, uid: u32, msg: Message) {
    on_receive(m, uid, msg);
}
